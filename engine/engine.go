package main

import (
	"crypto/sha256"
	"encoding/json"
	"fmt"
	"go/types"
	"os"
	"path/filepath"
	"regexp"
	"sort"
	"strings"
	"sync"
	"sync/atomic"
	"time"

	"golang.org/x/tools/go/packages"
	"golang.org/x/tools/go/ssa"
	"golang.org/x/tools/go/ssa/ssautil"
)

type Bounds struct {
	MaxUnwind    int            `json:"max_unwind"`
	MaxDepth     int            `json:"max_depth"`
	MaxSteps     int            `json:"max_steps"`
	MaxAlloc     int            `json:"max_alloc"`
	MaxPaths     int            `json:"max_paths"`
	Preempt      int            `json:"preempt"`
	Threads      bool           `json:"threads"`
	Race         bool           `json:"race"`
	MapOrderFork bool           `json:"map_order_fork"`
	PoolReuse    bool           `json:"pool_reuse"`
	AtomicSync   bool           `json:"atomic_sync"`
	TimeoutS     int            `json:"solver_timeout_s"`
	Params       map[string]int `json:"params"`
	ExpectPanic  string         `json:"expect_panic"`
	NoIfConv     bool           `json:"no_ifconv"`
	TimeMode     string         `json:"time_mode"`
	SchedMode    string         `json:"sched_mode"` // "" = preemption bounding, "delay" = delay bounding
	MaxTimerFires int           `json:"max_timer_fires"`
}

type HarnessSpec struct {
	Name       string   `json:"name"`  // entry function is vrtHarness_<Name>
	Pkg        string   `json:"pkg"`   // directory below /repo
	Files      []string `json:"files"` // harness sources below /verif/harness
	Covers     []string `json:"covers"`
	Quick      Bounds   `json:"quick"`
	Thorough   Bounds   `json:"thorough"`
	AtomicPkgs []string `json:"atomic_pkgs"`
	Replay     string   `json:"replay"` // "direct" (default) | "none"
	Note       string   `json:"note"`
	InitPkgs   []string `json:"init_pkgs"` // packages whose variable initialisers are executed before the harness
	NoAutoInit bool     `json:"no_auto_init"` // do not run the initialisers of the /repo packages the harness package depends on
	Redirects  map[string]string `json:"redirects"` // callee (fully qualified) -> harness function implementing its contract
	ReplayRepeat int    `json:"replay_repeat"`
	NativeRace bool     `json:"native_race"`
	NativeQuiesceMs int `json:"native_quiesce_ms"` // native grace period of vrtWaitQuiescent // native replays run under go test -race // native stress iterations for schedule-dependent counterexamples
}

type PropSpec struct {
	ID          string        `json:"id"`
	Harnesses   []HarnessSpec `json:"harnesses"`
	Assumptions []string      `json:"assumptions"`
}

type Config struct {
	Bounds
	AtomicPkgs map[string]bool
}

type Engine struct {
	prog       *ssa.Program
	pkgs       []*packages.Package
	cfg        Config
	spec       *HarnessSpec
	tier       string
	opaqueErrT types.Type
	globalInit func(st *State, g *ssa.Global, o *Object)
	redirects  map[string]*ssa.Function
	initOK     map[*ssa.Package]bool // /repo packages whose variable initialisers the engine can execute (lazily, on first touch)

	mu            sync.Mutex
	funcs         map[string]string // function -> file
	stubs         map[string]bool
	assumptions   map[string]bool
	inconclusive  []string
	nInconclusive int
	obligations   int64
	discharged    int64
	assertSites   map[string]bool
	coverSites    map[string]bool
	covers        map[string]*CoverHit
	violations    []*Violation
	paths         int64
	states        int64
	transitions   int64
	cutPaths      int64
	samples       []interface{}
}

func (e *Engine) isEngineType(t types.Type) bool { return false }

// redirect replaces a callee by the harness-level Go model registered for it in the spec.
func (e *Engine) redirect(f FuncV) FuncV {
	if f.Fn == nil || len(e.redirects) == 0 {
		return f
	}
	if r, ok := e.redirects[fnKey(f.Fn)]; ok {
		e.noteStub(fnKey(f.Fn) + " -> harness model " + r.Name())
		return FuncV{Fn: r}
	}
	return f
}

func (e *Engine) noteFunc(fn *ssa.Function) {
	e.mu.Lock()
	defer e.mu.Unlock()
	k := fn.String()
	if _, ok := e.funcs[k]; ok {
		return
	}
	file := ""
	if fn.Pos().IsValid() {
		file = e.prog.Fset.Position(fn.Pos()).Filename
	} else if fn.Parent() != nil && fn.Parent().Pos().IsValid() {
		file = e.prog.Fset.Position(fn.Parent().Pos()).Filename
	}
	e.funcs[k] = file
}

func (e *Engine) noteStub(k string) {
	e.mu.Lock()
	e.stubs[k] = true
	e.mu.Unlock()
}

func (e *Engine) noteObligation(discharged bool) {
	atomic.AddInt64(&e.obligations, 1)
	if discharged {
		atomic.AddInt64(&e.discharged, 1)
	}
}

func (e *Engine) noteAssertSite(l string) {
	e.mu.Lock()
	e.assertSites[l] = true
	e.mu.Unlock()
}

func (e *Engine) noteCoverSite(l string) {
	e.mu.Lock()
	e.coverSites[l] = true
	e.mu.Unlock()
}

func (e *Engine) coverDone(l string) bool {
	e.mu.Lock()
	defer e.mu.Unlock()
	return e.covers[l] != nil
}

func (e *Engine) noteCover(l string, h *CoverHit) {
	e.mu.Lock()
	if e.covers[l] == nil {
		e.covers[l] = h
	}
	e.mu.Unlock()
}

// ---------- loading ----------

var pkgClauseRe = regexp.MustCompile(`(?m)^package\s+(\w+)`)

// buildOverlay returns the overlay map (virtual path -> contents) for a harness spec.
func buildOverlay(spec *HarnessSpec, verifRoot string) (map[string][]byte, error) {
	ov := map[string][]byte{}
	pkgName := ""
	for _, f := range spec.Files {
		src, err := os.ReadFile(filepath.Join(verifRoot, "harness", f))
		if err != nil {
			return nil, err
		}
		m := pkgClauseRe.FindSubmatch(src)
		if m == nil {
			return nil, fmt.Errorf("no package clause in %s", f)
		}
		if strings.HasPrefix(f, "common/") {
			// shared helper: takes the package name of the harness files listed before it
			src = []byte(strings.Replace(string(src), "package PKG", "package "+pkgName, 1))
		} else {
			pkgName = string(m[1])
		}
		vp := filepath.Join(repoRoot, spec.Pkg, "zz_vrt_"+strings.ReplaceAll(f, "/", "_"))
		ov[vp] = src
	}
	prims, err := os.ReadFile(filepath.Join(verifRoot, "harness", "common", "vrt_prims.go.tmpl"))
	if err != nil {
		return nil, err
	}
	ov[filepath.Join(repoRoot, spec.Pkg, "zz_vrt_prims.go")] = []byte(strings.Replace(string(prims), "package PKG", "package "+pkgName, 1))
	return ov, nil
}

func loadProgram(spec *HarnessSpec, verifRoot string) (*ssa.Program, []*packages.Package, *ssa.Package, error) {
	ov, err := buildOverlay(spec, verifRoot)
	if err != nil {
		return nil, nil, nil, err
	}
	cfg := &packages.Config{
		Mode:       packages.LoadAllSyntax,
		Dir:        repoRoot,
		BuildFlags: []string{"-tags=verif"},
		Overlay:    ov,
		Env:        append(os.Environ(), "GOFLAGS=-mod=mod", "GOPROXY=off", "GOSUMDB=off", "GOTOOLCHAIN=local"),
	}
	pkgs, err := packages.Load(cfg, "./"+spec.Pkg)
	if err != nil {
		return nil, nil, nil, err
	}
	if packages.PrintErrors(pkgs) > 0 {
		return nil, nil, nil, fmt.Errorf("package load errors (harness or /repo does not compile)")
	}
	prog, spkgs := ssautil.AllPackages(pkgs, ssa.InstantiateGenerics)
	var main *ssa.Package
	for _, p := range spkgs {
		if p != nil {
			main = p
		}
	}
	prog.Build()
	return prog, pkgs, main, nil
}

// ---------- exploration ----------

type Worker struct {
	tt     *TermTable
	solver *Portfolio
	paths  int
}

type workQueue struct {
	mu      sync.Mutex
	cond    *sync.Cond
	items   [][]Decision
	active  int
	stopped bool
}

func (q *workQueue) push(items [][]Decision) {
	q.mu.Lock()
	q.items = append(q.items, items...)
	q.mu.Unlock()
	q.cond.Broadcast()
}

func (q *workQueue) pop() ([]Decision, bool) {
	q.mu.Lock()
	defer q.mu.Unlock()
	for len(q.items) == 0 {
		if q.active == 0 || q.stopped {
			q.cond.Broadcast()
			return nil, false
		}
		q.cond.Wait()
	}
	if q.stopped {
		return nil, false
	}
	it := q.items[len(q.items)-1]
	q.items = q.items[:len(q.items)-1]
	q.active++
	return it, true
}

func (q *workQueue) done() {
	q.mu.Lock()
	q.active--
	q.mu.Unlock()
	q.cond.Broadcast()
}

func (e *Engine) newState(w *Worker, prefix []Decision) *State {
	return &State{eng: e, w: w, tt: w.tt, prefix: prefix,
		pkgInit: map[*ssa.Package]bool{},
		globals: map[*ssa.Global]*Object{}, strCache: map[string]StrV{}, errCache: map[string]IfaceV{},
		covers: map[string]*CoverHit{}, mutexes: map[string]*mutexState{}, onces: map[string]*onceState{},
		wgs: map[string]*wgState{}, conds: map[string]int{}, atomicHB: map[string][]int{},
		shadow: map[string]*shadowCell{}, uf: map[string]int{}, kv: map[string]Value{}, poolBufs: map[int]bool{}}
}

type pathOutcome struct {
	kind string
	msg  string
}

func (e *Engine) runPath(w *Worker, entry *ssa.Function, prefix []Decision) (st *State, out pathOutcome) {
	st = e.newState(w, prefix)
	defer func() {
		if r := recover(); r != nil {
			switch a := r.(type) {
			case pathAbort:
				out = pathOutcome{a.kind, a.msg}
				if a.kind == "UNSUPPORTED" {
					out.msg += " at " + st.curSite()
				}
			case needFork:
				out = pathOutcome{"UNSUPPORTED", "unmergeable values at symbolic index (" + st.curSite() + ")"}
			default:
				if os.Getenv("GOSYM_PANIC") != "" {
					panic(r)
				}
				out = pathOutcome{"INTERNAL", fmt.Sprintf("engine panic: %v at %s", r, st.curSite())}
			}
		}
	}()
	th := st.newThread(FuncV{Fn: entry}, nil, "main")
	st.cur = th
	if len(e.spec.InitPkgs) > 0 {
		st.initMode = true
		st.cur = th
		for _, pp := range e.spec.InitPkgs {
			p := e.prog.ImportedPackage(pp)
			if p == nil {
				panic(pathAbort{kind: "UNSUPPORTED", msg: "init_pkgs: package not loaded: " + pp})
			}
			st.callSync(th, FuncV{Fn: p.Func("init")}, nil)
		}
		st.initMode = false
	}
	st.runAll()
	return st, pathOutcome{"OK", ""}
}

// Package variables of /repo packages: the variable initialisers of a package are executed
// lazily, the first time one of its package variables is touched on a path (nested for the
// packages its initialisers touch in turn).  init() functions - plugin registration and the
// like - are not run, nor anything of packages outside /repo or of packages whose variables
// the engine models itself.  Whether a package's initialisers can be executed at all is
// decided once per run by trial runs on scratch states (computeAutoInit); a package that
// cannot keeps lazily zeroed variables.

// packages whose package variables are given their values by the engine (misc.go globalInit)
var engineModelled = map[string]bool{"github.com/IrineSistiana/mosdns/v5/pkg/pool": true}

const repoModule = "github.com/IrineSistiana/mosdns/"

// lazyInit runs p's variable initialisers now (called from globalObj).
func (st *State) lazyInit(p *ssa.Package) {
	fn := p.Func("init")
	if fn == nil || len(fn.Blocks) == 0 || st.cur == nil {
		return
	}
	th := st.cur
	nthr, nviol := len(st.thrs), len(st.violations)
	st.initStack = append(st.initStack, p)
	st.callSyncNoIntrinsic(th, FuncV{Fn: fn}, nil)
	st.initStack = st.initStack[:len(st.initStack)-1]
	if len(st.thrs) != nthr {
		panic(pathAbort{kind: "UNSUPPORTED", msg: "package initialiser of " + p.Pkg.Path() + " starts goroutines"})
	}
	if len(st.violations) != nviol {
		st.violations = st.violations[:nviol]
		panic(pathAbort{kind: "UNSUPPORTED", msg: "package initialiser of " + p.Pkg.Path() + " fails"})
	}
}

func (e *Engine) computeAutoInit(w *Worker, entry *ssa.Function) {
	e.initOK = map[*ssa.Package]bool{}
	if e.spec.NoAutoInit || entry.Pkg == nil {
		return
	}
	var cands []*ssa.Package
	seen := map[*types.Package]bool{}
	var visit func(tp *types.Package)
	visit = func(tp *types.Package) {
		if seen[tp] || !strings.HasPrefix(tp.Path(), repoModule) || engineModelled[tp.Path()] {
			return
		}
		seen[tp] = true
		for _, imp := range tp.Imports() {
			visit(imp)
		}
		if sp := e.prog.Package(tp); sp != nil {
			cands = append(cands, sp)
			e.initOK[sp] = true
		}
	}
	visit(entry.Pkg.Pkg)
	try := func(p *ssa.Package) (bad *ssa.Package, reason string) {
		st := e.newState(w, nil)
		th := st.newThread(FuncV{Fn: entry}, nil, "main")
		st.cur = th
		defer func() {
			if r := recover(); r != nil {
				reason = fmt.Sprint(r)
				if a, ok := r.(pathAbort); ok {
					reason = a.kind + ": " + a.msg
				}
				bad = p
				if n := len(st.initStack); n > 0 {
					bad = st.initStack[n-1]
				}
			}
		}()
		st.pkgInit[p] = true
		st.lazyInit(p)
		if os.Getenv("GOSYM_DEBUG_INIT") != "" {
			fmt.Fprintf(os.Stderr, "init %s: %d steps\n", p.Pkg.Path(), st.steps)
		}
		return nil, ""
	}
	for changed := true; changed; {
		changed = false
		for _, p := range cands {
			if !e.initOK[p] {
				continue
			}
			if bad, reason := try(p); bad != nil {
				delete(e.initOK, bad)
				e.addAssumption("package variable initialisers of " + bad.Pkg.Path() + " are not executed (" + reason + "): its package variables start zeroed")
				changed = true
			}
		}
	}
}

func (e *Engine) addAssumption(s string) {
	e.mu.Lock()
	e.assumptions[s] = true
	e.mu.Unlock()
}

func (e *Engine) explore(entry *ssa.Function, nWorkers int, deadline time.Time) {
	{
		timeout := time.Duration(e.cfg.TimeoutS) * time.Second
		if timeout == 0 {
			timeout = 10 * time.Second
		}
		w := &Worker{tt: NewTermTable()}
		w.solver = NewPortfolio(w.tt, timeout, false)
		e.computeAutoInit(w, entry)
		w.solver.Close()
	}
	q := &workQueue{}
	q.cond = sync.NewCond(&q.mu)
	q.items = [][]Decision{nil}
	var wg sync.WaitGroup
	timeout := time.Duration(e.cfg.TimeoutS) * time.Second
	if timeout == 0 {
		timeout = 10 * time.Second
	}
	for i := 0; i < nWorkers; i++ {
		wg.Add(1)
		go func() {
			defer wg.Done()
			w := &Worker{tt: NewTermTable()}
			w.solver = NewPortfolio(w.tt, timeout, e.tier == "thorough")
			defer func() { w.solver.Close() }()
			for {
				prefix, ok := q.pop()
				if !ok {
					return
				}
				if w.paths > 0 && w.paths%500 == 0 {
					w.solver.Close()
					w.tt = NewTermTable()
					w.solver = NewPortfolio(w.tt, timeout, e.tier == "thorough")
				}
				w.paths++
				st, out := e.runPath(w, entry, prefix)
				e.collect(st, out)
				n := atomic.AddInt64(&e.paths, 1)
				if (e.cfg.MaxPaths > 0 && int(n) >= e.cfg.MaxPaths) || time.Now().After(deadline) {
					q.mu.Lock()
					if !q.stopped {
						q.stopped = true
						e.mu.Lock()
						e.inconclusive = append(e.inconclusive, fmt.Sprintf("exploration stopped after %d paths (path/time budget) with work remaining", n))
						e.nInconclusive++
						e.mu.Unlock()
					}
					q.mu.Unlock()
				}
				q.push(st.newWork)
				q.done()
			}
		}()
	}
	wg.Wait()
}

func (e *Engine) collect(st *State, out pathOutcome) {
	e.mu.Lock()
	defer e.mu.Unlock()
	atomic.AddInt64(&e.states, int64(len(st.decisions))+1)
	atomic.AddInt64(&e.transitions, int64(st.steps))
	switch out.kind {
	case "OK", "DONE":
	case "INFEASIBLE":
		e.cutPaths++
	default:
		e.nInconclusive++
		if len(e.inconclusive) < 50 {
			e.inconclusive = append(e.inconclusive, out.kind+": "+out.msg)
		}
	}
	for _, v := range st.violations {
		// keep up to 12 candidate counterexamples per (label, site) that differ in their vrtChoice vector:
		// the reporter replays them natively in turn until one reproduces
		same, dup := 0, false
		for _, o := range e.violations {
			if o.Label == v.Label && o.Site == v.Site {
				same++
				if fmt.Sprint(o.Choices) == fmt.Sprint(v.Choices) {
					dup = true
				}
			}
		}
		if !dup && same < 12 {
			e.violations = append(e.violations, v)
		}
	}
	if len(e.samples) < 5 && out.kind == "OK" {
		e.samples = append(e.samples, map[string]interface{}{
			"decisions": decisionString(st.decisions), "path_condition_conjuncts": len(st.pc), "steps": st.steps, "outcome": out.kind,
		})
	}
	if os.Getenv("GOSYM_VERBOSE") != "" {
		fmt.Fprintf(os.Stderr, "path %s: %s %s (steps %d, pc %d)\n", decisionString(st.decisions), out.kind, out.msg, st.steps, len(st.pc))
	}
}

func decisionString(ds []Decision) string {
	var sb strings.Builder
	for _, d := range ds {
		switch d.Kind {
		case "br":
			sb.WriteString([]string{"F", "T", "f", "t"}[d.Alt])
		case "chk", "ast", "asm":
			sb.WriteString(".")
		default:
			fmt.Fprintf(&sb, "[%s%d]", d.Kind[:1], d.Alt)
		}
	}
	return sb.String()
}

// ---------- hashing of source files ----------

func fileSHA(path string) string {
	b, err := os.ReadFile(path)
	if err != nil {
		return ""
	}
	return fmt.Sprintf("%x", sha256.Sum256(b))
}

func (e *Engine) encodedFunctions() (repoFuncs []string, depFuncs int, files map[string]string) {
	files = map[string]string{}
	for fn, file := range e.funcs {
		if strings.HasPrefix(file, repoRoot+"/") && !strings.Contains(file, "zz_vrt_") {
			repoFuncs = append(repoFuncs, fn)
			if _, ok := files[file]; !ok {
				files[file] = fileSHA(file)
			}
		} else if !strings.Contains(file, "zz_vrt_") {
			depFuncs++
		}
	}
	sort.Strings(repoFuncs)
	return
}

func sortedKeys(m map[string]bool) []string {
	var out []string
	for k := range m {
		out = append(out, k)
	}
	sort.Strings(out)
	return out
}

func mustJSON(v interface{}) []byte {
	b, err := json.MarshalIndent(v, "", " ")
	if err != nil {
		panic(err)
	}
	return b
}
