package main

// The SSA interpreter: explicit frame stacks (so that threads can block in
// the middle of calls), concrete control flow per path, symbolic data.

import (
	"fmt"
	"go/constant"
	"go/token"
	"go/types"
	"os"
	"strings"
	"sync"

	"golang.org/x/tools/go/ssa"
)

type pathAbort struct {
	kind string // INFEASIBLE, UNSUPPORTED, UNWIND, VIOLATION(fatal), ENGINE-DISAGREEMENT, INTERNAL, DONE
	msg  string
}

func unsupported(msg string) pathAbort { return pathAbort{kind: "UNSUPPORTED", msg: msg} }

type Decision struct {
	Kind string
	Alt  int64
}

type SymRec struct {
	Name string
	T    *Term
	Kind string // u8,u16,u32,u64,int,bool,byte(of bytes/string)
}

type Violation struct {
	Label     string
	Site      string
	Model     *Model
	Decisions []Decision
	Values    []uint64 // values of syms in creation order
	Choices   []int64
	Schedule  []int
	Trace     []string
	Known     string
	Syms      []string
}

type CoverHit struct {
	Label     string
	Values    []uint64
	Choices   []int64
	Decisions []Decision
	Observes  []string
}

type fnInfo struct {
	idx map[ssa.Value]int
	n   int
}

var fnInfos sync.Map

func getFnInfo(fn *ssa.Function) *fnInfo {
	if v, ok := fnInfos.Load(fn); ok {
		return v.(*fnInfo)
	}
	fi := &fnInfo{idx: map[ssa.Value]int{}}
	for _, p := range fn.Params {
		fi.idx[p] = fi.n
		fi.n++
	}
	for _, p := range fn.FreeVars {
		fi.idx[p] = fi.n
		fi.n++
	}
	for _, b := range fn.Blocks {
		for _, in := range b.Instrs {
			if v, ok := in.(ssa.Value); ok {
				fi.idx[v] = fi.n
				fi.n++
			}
		}
	}
	fnInfos.Store(fn, fi)
	return fi
}

type deferred struct {
	fn   FuncV
	args []Value
	// invoke-mode defers are resolved at defer time into fn/args
}

type Frame struct {
	fn        *ssa.Function
	info      *fnInfo
	locals    []Value
	block     *ssa.BasicBlock
	prev      *ssa.BasicBlock
	ip        int
	defers    []deferred
	dest      ssa.Value       // call instruction in the caller receiving the result (nil: discard)
	onReturn  func(ret Value) // engine continuation
	unwinding bool            // running defers because of a panic
	isDefer   bool            // this frame is a deferred call
	loopCnt   map[*ssa.BasicBlock]int
	loopBr    map[*ssa.BasicBlock]int
}

type Thread struct {
	id        int
	stack     []*Frame
	done      bool
	panicking bool
	panicVal  Value
	name      string
	// scheduling
	pending  *syncOp
	vc       []int
	steps    int
	daemon   bool // environment thread: not required to finish
	blockedF func() bool
}

type State struct {
	eng  *Engine
	w    *Worker
	tt   *TermTable
	pc   []*Term
	thrs []*Thread
	cur  *Thread

	nObj     int
	nSym     int
	nMap     int
	globals  map[*ssa.Global]*Object
	strCache map[string]StrV
	errCache map[string]IfaceV

	prefix    []Decision
	decisions []Decision
	newWork   [][]Decision
	syms      []SymRec
	choices   []int64
	schedule  []int

	violations []*Violation
	covers     map[string]*CoverHit
	observes   []string
	obsTerms   []obsRec
	assumesCut int
	steps      int
	branches   int
	trace      []string

	// sync side tables
	mutexes  map[string]*mutexState
	onces    map[string]*onceState
	wgs      map[string]*wgState
	conds    map[string]int
	atomicHB map[string][]int
	timers   []*timerObj
	now      *Term
	clockFrozen bool
	preempts int
	initMode bool
	initStack []*ssa.Package        // packages whose variable initialisers are running (innermost last)
	pkgInit   map[*ssa.Package]bool // packages whose initialisers have run (or are running) on this path
	timersFrozen bool
	model    *Model
	modelLen int
	finals   []FuncV
	shadow   map[string]*shadowCell
	sleepers int
	uf       map[string]int
	kv       map[string]Value // engine-side per-path scratch for intrinsics
	poolBufs map[int]bool
	inAtomic int
	envBudget int
	funcsSeen map[*ssa.Function]bool
}

type stepStatus int

const (
	stNext stepStatus = iota
	stJump            // control already updated
	stBlock           // cannot proceed now (retry the same instruction later)
	stYield           // at a scheduling point: let the scheduler decide (retry after)
)

func (st *State) top(th *Thread) *Frame { return th.stack[len(th.stack)-1] }

func (st *State) site(fr *Frame) string {
	if fr == nil || fr.block == nil {
		return "?"
	}
	if fr.ip < len(fr.block.Instrs) {
		in := fr.block.Instrs[fr.ip]
		if p := in.Pos(); p != token.NoPos {
			pos := st.eng.prog.Fset.Position(p)
			return fmt.Sprintf("%s (%s:%d)", fr.fn.String(), shortPath(pos.Filename), pos.Line)
		}
	}
	return fr.fn.String()
}

func shortPath(p string) string {
	if strings.HasPrefix(p, repoRoot+"/") {
		return p[len(repoRoot)+1:]
	}
	if i := strings.LastIndex(p, "/pkg/mod/"); i >= 0 {
		return p[i+9:]
	}
	if i := strings.Index(p, "/src/"); i >= 0 {
		return p[i+5:]
	}
	return p
}

func (st *State) curSite() string {
	if st.cur != nil && len(st.cur.stack) > 0 {
		// innermost frame with position info
		for i := len(st.cur.stack) - 1; i >= 0; i-- {
			s := st.site(st.cur.stack[i])
			if strings.Contains(s, ":") {
				return s
			}
		}
	}
	return "?"
}

func (st *State) stackTrace() []string {
	var out []string
	if st.cur == nil {
		return out
	}
	for i := len(st.cur.stack) - 1; i >= 0 && len(out) < 12; i-- {
		out = append(out, st.site(st.cur.stack[i]))
	}
	return out
}

// ---------- decisions ----------

func (st *State) decide(kind string, alts []int64) int64 {
	if len(alts) == 0 {
		panic(pathAbort{kind: "INFEASIBLE", msg: "no alternative for " + kind})
	}
	if st.initMode || len(st.initStack) > 0 {
		return alts[0] // package initialisers run deterministically (no forks are recorded)
	}
	i := len(st.decisions)
	if i < len(st.prefix) {
		d := st.prefix[i]
		if d.Kind != kind {
			panic(pathAbort{kind: "INTERNAL", msg: fmt.Sprintf("decision replay mismatch at %d: recorded %s, now %s at %s", i, d.Kind, kind, st.curSite())})
		}
		st.decisions = append(st.decisions, d)
		return d.Alt
	}
	for _, a := range alts[1:] {
		nw := make([]Decision, len(st.decisions)+1)
		copy(nw, st.decisions)
		nw[len(st.decisions)] = Decision{Kind: kind, Alt: a}
		st.newWork = append(st.newWork, nw)
	}
	d := Decision{Kind: kind, Alt: alts[0]}
	st.decisions = append(st.decisions, d)
	return d.Alt
}

func (st *State) inPrefix() bool { return len(st.decisions) < len(st.prefix) }

func (st *State) assume(c *Term) {
	if c.IsTrue() {
		return
	}
	if c.IsFalse() {
		panic(pathAbort{kind: "INFEASIBLE", msg: "assumption false"})
	}
	st.pc = append(st.pc, c)
	st.extendModel(c)
}

// extendModel keeps the cached model valid when c is appended to pc.
func (st *State) extendModel(c *Term) {
	if st.model != nil && st.modelLen == len(st.pc)-1 && st.model.Eval(c) == 1 {
		st.modelLen = len(st.pc)
	}
}

// branch decides a symbolic condition.
func (st *State) branch(c *Term) bool {
	if c.IsConst() {
		return c.Val == 1
	}
	st.branches++
	nc := st.tt.Not(c)
	take := func(v bool) bool {
		if v {
			st.pc = append(st.pc, c)
			st.extendModel(c)
		} else {
			st.pc = append(st.pc, nc)
			st.extendModel(nc)
		}
		return v
	}
	if st.inPrefix() {
		a := st.decide("br", nil2)
		if a >= 2 { // forced: implied by pc, nothing to add
			return a == 3
		}
		return take(a == 1)
	}
	var rT, rF Res
	var mT, mF *Model
	if st.model != nil && len(st.pc) == st.modelLen {
		// the cached model satisfies pc: one side is feasible without a query
		if st.model.Eval(c) == 1 {
			rT, mT = Sat, st.model
			rF, mF = st.w.solver.Check(st.pc, nc, true, "feas")
		} else {
			rF, mF = Sat, st.model
			rT, mT = st.w.solver.Check(st.pc, c, true, "feas")
		}
	} else {
		rT, mT = st.w.solver.Check(st.pc, c, true, "feas")
		rF, mF = st.w.solver.Check(st.pc, nc, true, "feas")
	}
	if rT == Unknown || rF == Unknown {
		st.noteInconclusive("feasibility query unknown at " + st.curSite() + " (both branches kept)")
	}
	switch {
	case rT == Unsat && rF == Unsat:
		panic(pathAbort{kind: "INFEASIBLE", msg: "path condition unsatisfiable"})
	case rT == Unsat:
		st.decide("br", []int64{2})
		if mF != nil {
			st.model, st.modelLen = mF, len(st.pc)
		}
		return false
	case rF == Unsat:
		st.decide("br", []int64{3})
		if mT != nil {
			st.model, st.modelLen = mT, len(st.pc)
		}
		return true
	}
	a := st.decide("br", []int64{1, 0})
	if a == 1 && mT != nil {
		st.model, st.modelLen = mT, len(st.pc)
	} else if a == 0 && mF != nil {
		st.model, st.modelLen = mF, len(st.pc)
	}
	return take(a == 1)
}

var nil2 = []int64{0}

// check is an implicit assertion: cond must hold on every feasible extension.
func (st *State) check(cond *Term, msg string) {
	if cond.IsTrue() {
		return
	}
	if st.inPrefix() {
		// already examined when this prefix was first executed
		st.decide("chk", nil2)
		if cond.IsFalse() {
			panic(pathAbort{kind: "DONE", msg: "implicit violation (already reported): " + msg})
		}
		st.assume(cond)
		return
	}
	r, m := st.w.solver.Check(st.pc, st.tt.Not(cond), true, "assert")
	st.decide("chk", nil2)
	st.eng.noteObligation(r != Unknown)
	if r == Sat {
		st.recordViolation("implicit: "+msg, m)
	} else if r == Unknown {
		st.noteInconclusive("implicit assertion unknown: " + msg + " at " + st.curSite())
	}
	if cond.IsFalse() {
		panic(pathAbort{kind: "DONE", msg: "implicit violation: " + msg})
	}
	st.assume(cond)
}

func (st *State) noteInconclusive(msg string) {
	st.eng.mu.Lock()
	if len(st.eng.inconclusive) < 50 {
		st.eng.inconclusive = append(st.eng.inconclusive, msg)
	}
	st.eng.nInconclusive++
	st.eng.mu.Unlock()
}

func (st *State) symValues(m *Model) []uint64 {
	out := make([]uint64, len(st.syms))
	for i, s := range st.syms {
		if m != nil {
			out[i] = m.Eval(s.T)
		}
	}
	return out
}

func (st *State) recordViolation(label string, m *Model) {
	v := &Violation{Label: label, Site: st.curSite(), Model: m,
		Decisions: append([]Decision{}, st.decisions...),
		Values:    st.symValues(m), Choices: append([]int64{}, st.choices...),
		Schedule: append([]int{}, st.schedule...),
		Trace:    append(st.stackTrace(), st.trace...)}
	for i, sr := range st.syms {
		v.Syms = append(v.Syms, fmt.Sprintf("%s=%d", sr.Name, v.Values[i]))
	}
	if m != nil {
		for _, o := range st.obsTerms {
			v.Syms = append(v.Syms, fmt.Sprintf("observe %s=%d", o.label, m.Eval(o.t)))
		}
	}
	st.violations = append(st.violations, v)
}

// violation creates a fatal violation (concrete failure on this path) and returns the abort value.
func (st *State) violation(msg string, m *Model) pathAbort {
	if !st.inPrefix() || true {
		if m == nil {
			r, mm := st.w.solver.Check(st.pc, nil, true, "assert")
			if r == Sat {
				m = mm
			} else if r == Unsat {
				return pathAbort{kind: "INFEASIBLE", msg: "violation on infeasible path: " + msg}
			}
		}
		st.recordViolation("implicit: "+msg, m)
	}
	return pathAbort{kind: "DONE", msg: "fatal violation: " + msg}
}

// ---------- symbols ----------

func (st *State) fresh(kind string, w int) *Term {
	name := fmt.Sprintf("s%d_%s", st.nSym, kind)
	st.nSym++
	t := st.tt.Var(name, w)
	st.syms = append(st.syms, SymRec{Name: name, T: t, Kind: kind})
	return t
}

// freshInternal creates a symbol that is not part of the replay stream.
func (st *State) freshInternal(kind string, w int) *Term {
	name := fmt.Sprintf("i%d_%s", st.nSym, kind)
	st.nSym++
	return st.tt.Var(name, w)
}

// ---------- evaluation of operands ----------

func (st *State) eval(fr *Frame, v ssa.Value) Value {
	switch x := v.(type) {
	case *ssa.Const:
		return st.constValue(x)
	case *ssa.Global:
		return Ptr{Obj: st.globalObj(x)}
	case *ssa.Function:
		return FuncV{Fn: x}
	case *ssa.Builtin:
		return FuncV{Builtin: x}
	}
	i, ok := fr.info.idx[v]
	if !ok {
		panic(fmt.Sprintf("eval: unknown value %s in %s", v.Name(), fr.fn))
	}
	r := fr.locals[i]
	if r == nil {
		// may legitimately be nil Value for UntypedNil; otherwise uninitialised
		return st.zero(v.Type())
	}
	return r
}

func (st *State) setLocal(fr *Frame, v ssa.Value, val Value) {
	fr.locals[fr.info.idx[v]] = val
}

func (st *State) constValue(c *ssa.Const) Value {
	t := c.Type()
	if c.Value == nil {
		return st.zero(t)
	}
	if tp, ok := t.(*types.TypeParam); ok {
		_ = tp
		panic(unsupported("const of type parameter"))
	}
	b, ok := t.Underlying().(*types.Basic)
	if !ok {
		panic(unsupported("const of non-basic type " + t.String()))
	}
	if w, _, ok := st.intWidth(b); ok {
		if w == 0 {
			return st.tt.Bool(constant.BoolVal(c.Value))
		}
		cv := constant.ToInt(c.Value)
		if u, exact := constant.Uint64Val(cv); exact {
			return st.tt.Const(u, w)
		}
		i, _ := constant.Int64Val(cv)
		return st.tt.Const(uint64(i), w)
	}
	switch b.Kind() {
	case types.String, types.UntypedString:
		return st.constString(constant.StringVal(c.Value))
	case types.Float32, types.Float64, types.UntypedFloat:
		f, _ := constant.Float64Val(c.Value)
		return FloatV{f}
	}
	panic(unsupported("const kind " + b.String()))
}

func (st *State) globalObj(g *ssa.Global) *Object {
	if o, ok := st.globals[g]; ok {
		return o
	}
	et := g.Type().(*types.Pointer).Elem()
	o := st.newObject(st.zero(et), et, "global "+g.String())
	st.globals[g] = o
	if p := g.Pkg; p != nil && st.eng.initOK[p] && !st.pkgInit[p] {
		defer func() {
			if !st.pkgInit[p] {
				st.pkgInit[p] = true
				st.lazyInit(p)
			}
		}()
	}
	// error-typed sentinels get a distinct opaque value lazily
	if types.Identical(et, errorType) {
		o.V = st.opaqueError("global:" + g.String())
	} else if st.eng.globalInit != nil {
		st.eng.globalInit(st, g, o)
	}
	return o
}

var errorType = types.Universe.Lookup("error").Type()

// opaqueError returns a distinct non-nil error value identified by name.
func (st *State) opaqueError(name string) IfaceV {
	if v, ok := st.errCache[name]; ok {
		return v
	}
	o := st.newObject(&StructV{F: []Value{st.constString(name), IfaceV{}}}, nil, "error "+name)
	v := IfaceV{T: st.eng.opaqueErrT, V: Ptr{Obj: o}}
	st.errCache[name] = v
	return v
}

// ---------- running ----------

func (st *State) newThread(fn FuncV, args []Value, name string) *Thread {
	th := &Thread{id: len(st.thrs), name: name}
	st.thrs = append(st.thrs, th)
	st.pushCall(th, fn, args, nil, nil)
	return th
}

func (st *State) pushCall(th *Thread, f FuncV, args []Value, dest ssa.Value, onReturn func(Value)) *Frame {
	fn := f.Fn
	if fn == nil {
		panic(st.violation("call of nil function", nil))
	}
	if len(fn.Blocks) == 0 {
		panic(unsupported("call to body-less function " + fn.String() + " at " + st.curSite()))
	}
	if len(th.stack) > st.eng.cfg.MaxDepth {
		panic(pathAbort{kind: "UNWIND", msg: "call depth bound exceeded at " + fn.String()})
	}
	st.eng.noteFunc(fn)
	info := getFnInfo(fn)
	fr := &Frame{fn: fn, info: info, locals: make([]Value, info.n), block: fn.Blocks[0], dest: dest, onReturn: onReturn}
	if len(args) != len(fn.Params) {
		panic(fmt.Sprintf("arg count mismatch calling %s: %d vs %d", fn, len(args), len(fn.Params)))
	}
	for i, p := range fn.Params {
		fr.locals[info.idx[p]] = copyValue(args[i])
	}
	for i, p := range fn.FreeVars {
		fr.locals[info.idx[p]] = f.Env[i]
	}
	th.stack = append(th.stack, fr)
	return fr
}

// callSync runs a function to completion on the current thread (used for
// atomic harness closures). It must not block.
func (st *State) callSync(th *Thread, f FuncV, args []Value) Value {
	if f.Fn == nil {
		panic(st.violation("call of nil function value", nil))
	}
	var result Value
	done := false
	base := len(th.stack)
	if r, handled := st.tryIntrinsic(th, f, args, nil); handled {
		return r
	}
	st.pushCall(th, f, args, nil, func(v Value) { result = v; done = true })
	st.inAtomic++
	defer func() { st.inAtomic-- }()
	for !done {
		if len(th.stack) <= base {
			break
		}
		s := st.step(th)
		if s == stBlock || s == stYield {
			panic(pathAbort{kind: "INTERNAL", msg: "blocking operation inside atomic section at " + st.curSite()})
		}
	}
	return result
}

// step executes one instruction of th.
func (st *State) step(th *Thread) stepStatus {
	st.steps++
	th.steps++
	if st.steps > st.eng.cfg.MaxSteps {
		panic(pathAbort{kind: "UNWIND", msg: fmt.Sprintf("step bound %d exceeded at %s", st.eng.cfg.MaxSteps, st.curSite())})
	}
	fr := st.top(th)
	if th.panicking || fr.unwinding {
		return st.unwindStep(th, fr)
	}
	in := fr.block.Instrs[fr.ip]
	s := st.exec(th, fr, in)
	if s == stNext {
		fr.ip++
	}
	return s
}

func (st *State) jump(fr *Frame, to *ssa.BasicBlock) {
	// loop bound on symbolic back-edges is enforced through the step bound and
	// per-block visit counter
	if to.Index <= fr.block.Index {
		if fr.loopCnt == nil {
			fr.loopCnt = map[*ssa.BasicBlock]int{}
			fr.loopBr = map[*ssa.BasicBlock]int{}
		}
		if fr.loopBr[to] != st.branches { // only iterations that took a symbolic decision count
			fr.loopCnt[to]++
		}
		fr.loopBr[to] = st.branches
		if fr.loopCnt[to] > st.eng.cfg.MaxUnwind {
			panic(pathAbort{kind: "UNWIND", msg: fmt.Sprintf("loop unwinding bound %d exceeded at %s", st.eng.cfg.MaxUnwind, st.site(fr))})
		}
	}
	fr.prev = fr.block
	fr.block = to
	fr.ip = 0
	// phis evaluated simultaneously
	var vals []Value
	n := 0
	for _, in := range to.Instrs {
		phi, ok := in.(*ssa.Phi)
		if !ok {
			break
		}
		n++
		pi := -1
		for k, p := range to.Preds {
			if p == fr.prev {
				pi = k
				break
			}
		}
		vals = append(vals, st.eval(fr, phi.Edges[pi]))
	}
	for k := 0; k < n; k++ {
		st.setLocal(fr, to.Instrs[k].(*ssa.Phi), vals[k])
	}
	fr.ip = n
}

func (st *State) doReturn(th *Thread, fr *Frame, ret Value) {
	th.stack = th.stack[:len(th.stack)-1]
	if fr.onReturn != nil {
		fr.onReturn(ret)
		return
	}
	if len(th.stack) == 0 {
		return
	}
	if fr.isDefer {
		return
	}
	caller := st.top(th)
	if fr.dest != nil {
		st.setLocal(caller, fr.dest, ret)
	}
}

// ---------- panics ----------

func (st *State) goPanic(th *Thread, v Value) stepStatus {
	th.panicking = true
	th.panicVal = v
	return stJump
}

func (st *State) unwindStep(th *Thread, fr *Frame) stepStatus {
	if th.panicking {
		if !fr.unwinding {
			fr.unwinding = true
		}
		if len(fr.defers) > 0 {
			return st.runOneDefer(th, fr)
		}
		// no more defers: pop
		th.stack = th.stack[:len(th.stack)-1]
		if fr.onReturn != nil || len(th.stack) == 0 {
			msg := st.panicMessage(th.panicVal)
			if exp := st.eng.cfg.ExpectPanic; exp != "" && strings.Contains(msg, exp) {
				panic(pathAbort{kind: "DONE", msg: "expected panic: " + msg})
			}
			th.stack = append(th.stack, fr) // keep a frame for the site
			panic(st.violation("uncaught panic: "+msg, nil))
		}
		return stJump
	}
	// recovered: fr.unwinding is set and thread no longer panicking
	if len(fr.defers) > 0 {
		return st.runOneDefer(th, fr)
	}
	fr.unwinding = false
	if fr.fn.Recover != nil {
		fr.prev = fr.block
		fr.block = fr.fn.Recover
		fr.ip = 0
		return stJump
	}
	var ret Value
	res := fr.fn.Signature.Results()
	switch res.Len() {
	case 0:
	case 1:
		ret = st.zero(res.At(0).Type())
	default:
		ret = st.zero(res)
	}
	st.doReturn(th, fr, ret)
	return stJump
}

// invokeDeferred starts a deferred call. stNext: completed (intrinsic); stJump: frame pushed;
// stYield/stBlock: the call is a synchronisation operation that must be retried.
func (st *State) invokeDeferred(th *Thread, d deferred) stepStatus {
	if d.fn.Builtin != nil || d.fn.Native != "" {
		st.tryIntrinsicFuncV(th, d.fn, d.args)
		return stNext
	}
	if d.fn.Fn == nil {
		panic(st.violation("deferred call of nil function", nil))
	}
	if _, s, handled := st.intrinsic(th, nil, d.fn, d.args, nil); handled {
		return s
	}
	nf := st.pushCall(th, d.fn, d.args, nil, nil)
	nf.isDefer = true
	return stJump
}

// runOneDefer pops and starts the last deferred call of fr.
func (st *State) runOneDefer(th *Thread, fr *Frame) stepStatus {
	n := len(fr.defers)
	d := fr.defers[n-1]
	fr.defers = fr.defers[:n-1]
	s := st.invokeDeferred(th, d)
	if s == stYield || s == stBlock {
		fr.defers = append(fr.defers, d) // retried when the thread is scheduled again
		return s
	}
	return stJump
}

func (st *State) panicMessage(v Value) string {
	if iv, ok := v.(IfaceV); ok {
		if iv.T == nil {
			return "panic(nil)"
		}
		switch x := iv.V.(type) {
		case StrV:
			if s, ok := st.concreteString(x); ok {
				return s
			}
			return "<symbolic string>"
		case Ptr:
			if x.Obj != nil && strings.HasPrefix(x.Obj.Site, "error ") {
				return x.Obj.Site
			}
		}
		return fmt.Sprintf("panic value of type %s", iv.T)
	}
	return fmt.Sprintf("%v", describe(v))
}

func (st *State) runtimePanic(th *Thread, msg string) stepStatus {
	// run-time panics (nil deref, bounds, ...) in code under test are violations
	panic(st.violation(msg, nil))
}

var debugTrace = os.Getenv("GOSYM_TRACE") != ""
