package main

// Solver layer: long-lived SMT-LIB2 processes over pipes with an assertion
// stack that mirrors the path condition, a bv-as-int fallback (cvc5) for
// multiply/divide kernels, and one-shot cross-checks on a second solver.

import (
	"bufio"
	"bytes"
	"fmt"
	"io"
	"os"
	"os/exec"
	"strconv"
	"strings"
	"sync"
	"sync/atomic"
	"time"
)

type Res int

const (
	Unsat Res = iota
	Sat
	Unknown
)

func (r Res) String() string { return [...]string{"unsat", "sat", "unknown"}[r] }

type SolverStats struct {
	Queries      int64
	Sat          int64
	UnsatN       int64
	UnknownN     int64
	CrossChecked int64
	Fallbacks    int64
	TimeNs       int64
	Restarts     int64
}

var gStats SolverStats
var gStatsMu sync.Mutex
var gBackends = map[string]int64{}

func noteBackend(name string) {
	gStatsMu.Lock()
	gBackends[name]++
	gStatsMu.Unlock()
}

type Solver struct {
	kind     string
	cmd      *exec.Cmd
	in       io.WriteCloser
	out      *bufio.Reader
	stack    []*Term
	levelDef [][]string // names defined at each level (level 0 = base)
	defined  map[string]bool
	tt       *TermTable
	timeout  time.Duration
	buf      bytes.Buffer
	dead     bool
	logf     *os.File
}

func solverArgs(kind string, timeoutMs int) (string, []string) {
	switch kind {
	case "z3":
		return "/usr/bin/z3", []string{"-in", fmt.Sprintf("-t:%d", timeoutMs)}
	case "z3-new":
		return "z3-new", []string{"-in", fmt.Sprintf("-t:%d", timeoutMs)}
	case "cvc5":
		return "cvc5", []string{"--incremental", "--produce-models", fmt.Sprintf("--tlimit-per=%d", timeoutMs), "--lang=smt2"}
	case "cvc5-int":
		return "cvc5", []string{"--incremental", "--produce-models", "--solve-bv-as-int=sum", fmt.Sprintf("--tlimit-per=%d", timeoutMs), "--lang=smt2"}
	}
	panic("unknown solver " + kind)
}

func NewSolver(kind string, tt *TermTable, timeout time.Duration) *Solver {
	s := &Solver{kind: kind, tt: tt, timeout: timeout}
	s.start()
	return s
}

func (s *Solver) start() {
	bin, args := solverArgs(s.kind, int(s.timeout/time.Millisecond))
	s.cmd = exec.Command(bin, args...)
	in, _ := s.cmd.StdinPipe()
	out, _ := s.cmd.StdoutPipe()
	s.cmd.Stderr = nil
	if err := s.cmd.Start(); err != nil {
		panic(fmt.Sprintf("cannot start solver %s: %v", bin, err))
	}
	s.in = in
	s.out = bufio.NewReaderSize(out, 1<<16)
	s.stack = nil
	s.levelDef = [][]string{nil}
	s.defined = map[string]bool{}
	s.dead = false
	if strings.HasPrefix(s.kind, "cvc5") {
		s.send("(set-logic ALL)\n")
	}
	s.send("(set-option :print-success false)\n")
	if p := os.Getenv("GOSYM_SMTLOG"); p != "" && s.logf == nil {
		s.logf, _ = os.OpenFile(fmt.Sprintf("%s.%d", p, os.Getpid()), os.O_CREATE|os.O_WRONLY|os.O_APPEND, 0644)
	}
}

func (s *Solver) Close() {
	if s.cmd != nil && s.cmd.Process != nil {
		s.in.Close()
		s.cmd.Process.Kill()
		s.cmd.Wait()
	}
}

func (s *Solver) restart() {
	atomic.AddInt64(&gStats.Restarts, 1)
	s.Close()
	s.start()
}

func (s *Solver) send(txt string) {
	if s.logf != nil {
		s.logf.WriteString(txt)
	}
	if _, err := io.WriteString(s.in, txt); err != nil {
		s.dead = true
	}
}

// readResp reads one s-expression or atom line from the solver with a wall-clock guard.
func (s *Solver) readResp(d time.Duration) (string, bool) {
	type rr struct {
		s  string
		ok bool
	}
	ch := make(chan rr, 1)
	go func() {
		var sb strings.Builder
		depth := 0
		started := false
		for {
			line, err := s.out.ReadString('\n')
			if err != nil {
				ch <- rr{sb.String(), false}
				return
			}
			t := strings.TrimSpace(line)
			if t == "" && !started {
				continue
			}
			started = true
			sb.WriteString(line)
			inStr := false
			for _, c := range t {
				if c == '"' {
					inStr = !inStr
				}
				if inStr {
					continue
				}
				if c == '(' {
					depth++
				} else if c == ')' {
					depth--
				}
			}
			if depth <= 0 {
				ch <- rr{sb.String(), true}
				return
			}
		}
	}()
	select {
	case r := <-ch:
		return r.s, r.ok
	case <-time.After(d):
		return "", false
	}
}

func (s *Solver) defName(t *Term) string {
	switch t.Op {
	case OpVar:
		return "v:" + t.Name
	case OpUF:
		return ""
	}
	return ""
}

// emitDefs writes declarations/definitions needed for t at the current level.
func (s *Solver) emitDefs(t *Term, sb *strings.Builder) {
	var rec func(t *Term)
	rec = func(t *Term) {
		switch t.Op {
		case OpConst:
			return
		case OpVar:
			k := "v:" + t.Name
			if !s.defined[k] {
				s.defined[k] = true
				s.levelDef[len(s.levelDef)-1] = append(s.levelDef[len(s.levelDef)-1], k)
				fmt.Fprintf(sb, "(declare-const %s %s)\n", t.Name, sortSMT(t.W))
			}
			return
		}
		k := "t" + strconv.Itoa(t.ID)
		if s.defined[k] {
			return
		}
		for _, a := range t.Args {
			rec(a)
		}
		if t.Op == OpUF {
			fk := "f:" + t.Name
			if !s.defined[fk] {
				s.defined[fk] = true
				s.levelDef[len(s.levelDef)-1] = append(s.levelDef[len(s.levelDef)-1], fk)
				sig := s.tt.ufs[t.Name]
				var as []string
				for _, w := range sig.args {
					as = append(as, sortSMT(w))
				}
				fmt.Fprintf(sb, "(declare-fun %s (%s) %s)\n", t.Name, strings.Join(as, " "), sortSMT(sig.ret))
			}
		}
		s.defined[k] = true
		s.levelDef[len(s.levelDef)-1] = append(s.levelDef[len(s.levelDef)-1], k)
		fmt.Fprintf(sb, "(define-fun %s () %s %s)\n", k, sortSMT(t.W), t.body())
	}
	rec(t)
}

func (s *Solver) pushLevel(sb *strings.Builder) {
	sb.WriteString("(push 1)\n")
	s.levelDef = append(s.levelDef, nil)
}

func (s *Solver) popLevels(n int, sb *strings.Builder) {
	if n <= 0 {
		return
	}
	fmt.Fprintf(sb, "(pop %d)\n", n)
	for i := 0; i < n; i++ {
		l := s.levelDef[len(s.levelDef)-1]
		for _, k := range l {
			delete(s.defined, k)
		}
		s.levelDef = s.levelDef[:len(s.levelDef)-1]
	}
}

// Check decides sat(pc ∧ extra). extra may be nil. With wantModel, a model over
// the variables and UF applications of the query is returned on sat.
func (s *Solver) Check(pc []*Term, extra *Term, wantModel bool) (Res, *Model) {
	t0 := time.Now()
	defer func() {
		d := time.Since(t0)
		atomic.AddInt64(&gStats.TimeNs, int64(d))
		if d > 2*time.Second && os.Getenv("GOSYM_SLOW") != "" {
			fmt.Fprintf(os.Stderr, "slow query %.1fs on %s (pc=%d)\n", d.Seconds(), s.kind, len(pc))
			if extra != nil {
				os.WriteFile(fmt.Sprintf("/tmp/slow_%s_%d.smt2", s.kind, time.Now().UnixNano()), []byte(oneShotText(s.tt, pc, extra)), 0644)
			}
		}
	}()
	atomic.AddInt64(&gStats.Queries, 1)
	noteBackend(s.kind)
	if s.dead {
		s.restart()
	}
	var sb strings.Builder
	k := 0
	for k < len(s.stack) && k < len(pc) && s.stack[k] == pc[k] {
		k++
	}
	s.popLevels(len(s.stack)-k, &sb)
	s.stack = s.stack[:k]
	for _, c := range pc[k:] {
		s.pushLevel(&sb)
		s.emitDefs(c, &sb)
		fmt.Fprintf(&sb, "(assert %s)\n", c.ref())
		s.stack = append(s.stack, c)
	}
	s.pushLevel(&sb)
	if extra != nil {
		s.emitDefs(extra, &sb)
		fmt.Fprintf(&sb, "(assert %s)\n", extra.ref())
	}
	sb.WriteString("(check-sat)\n")
	s.send(sb.String())
	resp, ok := s.readResp(s.timeout + 5*time.Second)
	res := Unknown
	var model *Model
	if !ok || s.dead {
		s.restart()
		atomic.AddInt64(&gStats.UnknownN, 1)
		return Unknown, nil
	}
	switch strings.TrimSpace(resp) {
	case "sat":
		res = Sat
	case "unsat":
		res = Unsat
	case "unknown", "timeout":
		res = Unknown
	default:
		// any (error ...) line is inconclusive; resynchronise by restarting
		fmt.Fprintf(os.Stderr, "solver %s: unexpected response %q\n", s.kind, strings.TrimSpace(resp))
		s.restart()
		atomic.AddInt64(&gStats.UnknownN, 1)
		return Unknown, nil
	}
	if res == Sat && wantModel {
		all := append(append([]*Term{}, pc...), extra)
		if extra == nil {
			all = pc
		}
		model = s.getModel(all)
		if model == nil {
			res = Unknown
		}
	}
	var sb2 strings.Builder
	s.popLevels(1, &sb2)
	s.send(sb2.String())
	switch res {
	case Sat:
		atomic.AddInt64(&gStats.Sat, 1)
	case Unsat:
		atomic.AddInt64(&gStats.UnsatN, 1)
	default:
		atomic.AddInt64(&gStats.UnknownN, 1)
	}
	return res, model
}

func collectUFApps(ts []*Term) []*Term {
	seen := map[int]bool{}
	var out []*Term
	var rec func(t *Term)
	rec = func(t *Term) {
		if seen[t.ID] {
			return
		}
		seen[t.ID] = true
		for _, a := range t.Args {
			rec(a)
		}
		if t.Op == OpUF {
			out = append(out, t)
		}
	}
	for _, t := range ts {
		if t != nil {
			rec(t)
		}
	}
	return out
}

func (s *Solver) getModel(ts []*Term) *Model {
	vars := collectVars(ts)
	ufs := collectUFApps(ts)
	m := &Model{Vars: map[string]uint64{}, UFs: map[string]uint64{}}
	if len(vars)+len(ufs) == 0 {
		return m
	}
	var refs []string
	for _, v := range vars {
		refs = append(refs, v.Name)
	}
	for _, u := range ufs {
		refs = append(refs, u.ref())
	}
	vals := make([]uint64, 0, len(refs))
	// ask in chunks to keep responses small
	const chunk = 200
	for i := 0; i < len(refs); i += chunk {
		j := i + chunk
		if j > len(refs) {
			j = len(refs)
		}
		s.send("(get-value (" + strings.Join(refs[i:j], " ") + "))\n")
		resp, ok := s.readResp(s.timeout + 5*time.Second)
		if !ok {
			s.dead = true
			return nil
		}
		vs, err := parseValues(resp, j-i)
		if err != nil {
			fmt.Fprintf(os.Stderr, "solver %s: cannot parse model: %v\n%s\n", s.kind, err, resp)
			return nil
		}
		vals = append(vals, vs...)
	}
	for i, v := range vars {
		m.Vars[v.Name] = vals[i]
	}
	// UF applications in topological (ID) order so inner applications are known
	for i, u := range ufs {
		key := u.Name + "("
		for k, a := range u.Args {
			if k > 0 {
				key += ","
			}
			key += fmt.Sprint(m.Eval(a))
		}
		key += ")"
		m.UFs[key] = vals[len(vars)+i]
	}
	return m
}

// parseValues extracts n values from a get-value response:
// ((name #x..) (name true) (t12 (_ bv5 32)) ...)
func parseValues(resp string, n int) ([]uint64, error) {
	toks := tokenize(resp)
	// structure: ( ( name value ) ( name value ) ... ) where value is an atom or (_ bvN W)
	pos := 0
	expect := func(s string) error {
		if pos >= len(toks) || toks[pos] != s {
			return fmt.Errorf("expected %q at %d", s, pos)
		}
		pos++
		return nil
	}
	if err := expect("("); err != nil {
		return nil, err
	}
	var out []uint64
	for pos < len(toks) && toks[pos] == "(" {
		pos++
		// name: atom or s-expr
		if toks[pos] == "(" {
			d := 0
			for {
				if toks[pos] == "(" {
					d++
				} else if toks[pos] == ")" {
					d--
				}
				pos++
				if d == 0 {
					break
				}
			}
		} else {
			pos++
		}
		// value
		var v uint64
		if toks[pos] == "(" {
			// (_ bvN W)
			if pos+4 < len(toks) && toks[pos+1] == "_" && strings.HasPrefix(toks[pos+2], "bv") {
				x, err := strconv.ParseUint(toks[pos+2][2:], 10, 64)
				if err != nil {
					return nil, err
				}
				v = x
				pos += 5
			} else {
				return nil, fmt.Errorf("unexpected value form at %d: %v", pos, toks[pos:min(pos+6, len(toks))])
			}
		} else {
			a := toks[pos]
			pos++
			switch {
			case a == "true":
				v = 1
			case a == "false":
				v = 0
			case strings.HasPrefix(a, "#x"):
				x, err := strconv.ParseUint(a[2:], 16, 64)
				if err != nil {
					return nil, err
				}
				v = x
			case strings.HasPrefix(a, "#b"):
				x, err := strconv.ParseUint(a[2:], 2, 64)
				if err != nil {
					return nil, err
				}
				v = x
			default:
				return nil, fmt.Errorf("unexpected atom %q", a)
			}
		}
		if err := expect(")"); err != nil {
			return nil, err
		}
		out = append(out, v)
	}
	if len(out) != n {
		return nil, fmt.Errorf("got %d values, want %d", len(out), n)
	}
	return out, nil
}

func tokenize(s string) []string {
	var toks []string
	i := 0
	for i < len(s) {
		c := s[i]
		switch {
		case c == '(' || c == ')':
			toks = append(toks, string(c))
			i++
		case c == ' ' || c == '\n' || c == '\t' || c == '\r':
			i++
		default:
			j := i
			for j < len(s) && !strings.ContainsRune("() \n\t\r", rune(s[j])) {
				j++
			}
			toks = append(toks, s[i:j])
			i = j
		}
	}
	return toks
}

// ---------- heavy arithmetic detection ----------

var heavyMemo sync.Map // *Term -> bool

func isHeavy(t *Term) bool {
	seen := map[int]bool{}
	var rec func(t *Term) bool
	rec = func(t *Term) bool {
		if seen[t.ID] {
			return false
		}
		seen[t.ID] = true
		switch t.Op {
		case OpMul, OpUDiv, OpURem, OpSDiv, OpSRem:
			if t.W >= 32 {
				a, b := t.Args[0], t.Args[1]
				switch {
				case !a.IsConst() && !b.IsConst():
					return true
				case b.IsConst() && b.Val >= 1<<16 && b.Val&(b.Val-1) != 0:
					return true
				case a.IsConst() && a.Val >= 1<<16 && a.Val&(a.Val-1) != 0:
					return true
				}
			}
		}
		for _, a := range t.Args {
			if rec(a) {
				return true
			}
		}
		return false
	}
	return rec(t)
}

// ---------- one-shot queries (fallback and cross-check) ----------

func oneShotText(tt *TermTable, pc []*Term, extra *Term) string {
	var sb strings.Builder
	sb.WriteString("(set-logic ALL)\n")
	s := &Solver{tt: tt, defined: map[string]bool{}, levelDef: [][]string{nil}}
	for _, c := range pc {
		s.emitDefs(c, &sb)
		fmt.Fprintf(&sb, "(assert %s)\n", c.ref())
	}
	if extra != nil {
		s.emitDefs(extra, &sb)
		fmt.Fprintf(&sb, "(assert %s)\n", extra.ref())
	}
	sb.WriteString("(check-sat)\n")
	return sb.String()
}

func oneShot(kind string, tt *TermTable, pc []*Term, extra *Term, timeout time.Duration) Res {
	txt := oneShotText(tt, pc, extra)
	var bin string
	var args []string
	switch kind {
	case "z3":
		bin, args = "/usr/bin/z3", []string{"-in", fmt.Sprintf("-T:%d", int(timeout/time.Second)+1)}
		txt = strings.Replace(txt, "(set-logic ALL)\n", "", 1)
	case "z3-new":
		bin, args = "z3-new", []string{"-in", fmt.Sprintf("-T:%d", int(timeout/time.Second)+1)}
	case "cvc5":
		bin, args = "cvc5", []string{"--lang=smt2", fmt.Sprintf("--tlimit=%d", int(timeout/time.Millisecond))}
	case "cvc5-int":
		bin, args = "cvc5", []string{"--lang=smt2", "--solve-bv-as-int=sum", fmt.Sprintf("--tlimit=%d", int(timeout/time.Millisecond))}
	}
	noteBackend(kind + "(one-shot)")
	cmd := exec.Command(bin, args...)
	cmd.Stdin = strings.NewReader(txt)
	var out bytes.Buffer
	cmd.Stdout = &out
	done := make(chan error, 1)
	cmd.Start()
	go func() { done <- cmd.Wait() }()
	select {
	case <-done:
	case <-time.After(timeout + 5*time.Second):
		cmd.Process.Kill()
		<-done
		return Unknown
	}
	o := out.String()
	if strings.Contains(o, "(error") {
		return Unknown
	}
	switch strings.TrimSpace(o) {
	case "sat":
		return Sat
	case "unsat":
		return Unsat
	}
	return Unknown
}

// oneShotModel runs a fresh solver process on the whole query and, on sat, reads a model.
func oneShotModel(kind string, tt *TermTable, pc []*Term, extra *Term, timeout time.Duration, wantModel bool) (Res, *Model) {
	t0 := time.Now()
	defer func() { atomic.AddInt64(&gStats.TimeNs, int64(time.Since(t0))) }()
	atomic.AddInt64(&gStats.Queries, 1)
	txt := oneShotText(tt, pc, extra)
	all := append(append([]*Term{}, pc...), extra)
	if extra == nil {
		all = pc
	}
	vars := collectVars(all)
	ufs := collectUFApps(all)
	var refs []string
	for _, v := range vars {
		refs = append(refs, v.Name)
	}
	for _, u := range ufs {
		refs = append(refs, u.ref())
	}
	if wantModel && len(refs) > 0 {
		txt = "(set-option :produce-models true)\n" + txt + "(get-value (" + strings.Join(refs, " ") + "))\n"
	}
	var bin string
	var args []string
	switch kind {
	case "cvc5-int":
		bin, args = "cvc5", []string{"--lang=smt2", "--solve-bv-as-int=sum", fmt.Sprintf("--tlimit=%d", int(timeout/time.Millisecond))}
	case "cvc5":
		bin, args = "cvc5", []string{"--lang=smt2", fmt.Sprintf("--tlimit=%d", int(timeout/time.Millisecond))}
	case "z3-new":
		bin, args = "z3-new", []string{"-in", fmt.Sprintf("-T:%d", int(timeout/time.Second)+1)}
	default:
		bin, args = "/usr/bin/z3", []string{"-in", fmt.Sprintf("-T:%d", int(timeout/time.Second)+1)}
		txt = strings.Replace(txt, "(set-logic ALL)\n", "", 1)
	}
	noteBackend(kind + "(one-shot)")
	cmd := exec.Command(bin, args...)
	cmd.Stdin = strings.NewReader(txt)
	var out bytes.Buffer
	cmd.Stdout = &out
	done := make(chan error, 1)
	if err := cmd.Start(); err != nil {
		return Unknown, nil
	}
	go func() { done <- cmd.Wait() }()
	select {
	case <-done:
	case <-time.After(timeout + 5*time.Second):
		cmd.Process.Kill()
		<-done
		atomic.AddInt64(&gStats.UnknownN, 1)
		return Unknown, nil
	}
	o := strings.TrimSpace(out.String())
	first := o
	rest := ""
	if i := strings.Index(o, "\n"); i >= 0 {
		first, rest = strings.TrimSpace(o[:i]), o[i+1:]
	}
	switch first {
	case "unsat":
		atomic.AddInt64(&gStats.UnsatN, 1)
		return Unsat, nil
	case "sat":
		atomic.AddInt64(&gStats.Sat, 1)
		if !wantModel {
			return Sat, nil
		}
		m := &Model{Vars: map[string]uint64{}, UFs: map[string]uint64{}}
		if len(refs) == 0 {
			return Sat, m
		}
		vals, err := parseValues(rest, len(refs))
		if err != nil {
			return Unknown, nil
		}
		for i, v := range vars {
			m.Vars[v.Name] = vals[i]
		}
		for i, u := range ufs {
			key := u.Name + "("
			for k, a := range u.Args {
				if k > 0 {
					key += ","
				}
				key += fmt.Sprint(m.Eval(a))
			}
			key += ")"
			m.UFs[key] = vals[len(vars)+i]
		}
		return Sat, m
	}
	atomic.AddInt64(&gStats.UnknownN, 1)
	return Unknown, nil
}

// Portfolio is the per-worker front end: primary z3, bv-as-int for heavy
// arithmetic, fallbacks on unknown, optional cross-check.
type Portfolio struct {
	tt       *TermTable
	primary  *Solver
	intSolv  *Solver
	timeout  time.Duration
	cross    bool // cross-check every assertion/cover query
	crossCnt int
}

func NewPortfolio(tt *TermTable, timeout time.Duration, cross bool) *Portfolio {
	return &Portfolio{tt: tt, primary: NewSolver("z3", tt, timeout), timeout: timeout, cross: cross}
}

func (p *Portfolio) Close() {
	p.primary.Close()
	if p.intSolv != nil {
		p.intSolv.Close()
	}
}

// kind: "feas" (branch feasibility), "assert", "cover"
func (p *Portfolio) Check(pc []*Term, extra *Term, wantModel bool, kind string) (Res, *Model) {
	heavy := false
	if extra != nil && isHeavy(extra) {
		heavy = true
	}
	if !heavy {
		for _, c := range pc {
			if h, ok := heavyMemo.Load(c); ok {
				if h.(bool) {
					heavy = true
					break
				}
				continue
			}
			h := isHeavy(c)
			heavyMemo.Store(c, h)
			if h {
				heavy = true
				break
			}
		}
	}
	var res Res
	var m *Model
	if heavy {
		// multiply/divide kernels: integer encoding in a fresh cvc5 (incremental mode is much slower there)
		res, m = oneShotModel("cvc5-int", p.tt, pc, extra, p.timeout, wantModel)
		if res == Unknown {
			atomic.AddInt64(&gStats.Fallbacks, 1)
			res, m = p.primary.Check(pc, extra, wantModel)
		}
	} else {
		res, m = p.primary.Check(pc, extra, wantModel)
		if res == Unknown {
			atomic.AddInt64(&gStats.Fallbacks, 1)
			res, m = oneShotModel("cvc5-int", p.tt, pc, extra, p.timeout, wantModel)
			if res == Unknown {
				res, m = oneShotModel("cvc5", p.tt, pc, extra, p.timeout, wantModel)
			}
		}
	}
	doCross := false
	if res != Unknown {
		if p.cross && kind != "feas" {
			doCross = true
		} else {
			p.crossCnt++
			if p.crossCnt%20 == 0 {
				doCross = true
			}
		}
	}
	if doCross {
		other := "z3-new"
		if heavy {
			other = "cvc5-int"
			if p.intSolv != nil {
				other = "z3-new"
			}
		}
		r2 := oneShot(other, p.tt, pc, extra, p.timeout)
		atomic.AddInt64(&gStats.CrossChecked, 1)
		if r2 != Unknown && r2 != res {
			panic(pathAbort{kind: "ENGINE-DISAGREEMENT", msg: fmt.Sprintf("primary says %v, %s says %v", res, other, r2)})
		}
	}
	return res, m
}
