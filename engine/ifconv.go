package main

// If-conversion: a symbolic branch whose arms are small pure blocks meeting in
// a join block is executed as ite-merging of the phis instead of forking.

import (
	"go/token"
	"go/types"

	"golang.org/x/tools/go/ssa"
)

func pureInstr(st *State, in ssa.Instruction) bool {
	switch x := in.(type) {
	case *ssa.BinOp:
		switch x.Op {
		case token.QUO, token.REM:
			return false
		case token.SHL, token.SHR:
			if _, signed, ok := st.intWidth(x.Y.Type()); !ok || signed {
				return false
			}
		}
		if _, _, ok := st.intWidth(x.X.Type()); !ok {
			return false
		}
		return true
	case *ssa.UnOp:
		return x.Op == token.NOT || x.Op == token.SUB || x.Op == token.XOR
	case *ssa.Convert:
		_, _, a := st.intWidth(x.X.Type())
		w, _, b := st.intWidth(x.Type())
		return a && b && w > 0
	case *ssa.ChangeType, *ssa.DebugRef:
		return true
	case *ssa.Phi:
		return true
	}
	return false
}

// armOf: if b is a pure arm of the branch in blk (single predecessor, only pure
// instructions, ends with a Jump) return its join block.
func armOf(st *State, blk, b *ssa.BasicBlock) (join *ssa.BasicBlock, ok bool) {
	if len(b.Preds) != 1 || b.Preds[0] != blk || len(b.Instrs) == 0 || len(b.Instrs) > 12 {
		return nil, false
	}
	j, isJ := b.Instrs[len(b.Instrs)-1].(*ssa.Jump)
	if !isJ {
		return nil, false
	}
	_ = j
	for _, in := range b.Instrs[:len(b.Instrs)-1] {
		if !pureInstr(st, in) {
			return nil, false
		}
	}
	return b.Succs[0], true
}

func (st *State) tryIfConvert(fr *Frame, cond *Term) bool {
	if st.eng.cfg.NoIfConv {
		return false
	}
	blk := fr.block
	bT, bF := blk.Succs[0], blk.Succs[1]
	jT, okT := armOf(st, blk, bT)
	jF, okF := armOf(st, blk, bF)
	var join *ssa.BasicBlock
	var fromT, fromF *ssa.BasicBlock // predecessor of join on each side
	switch {
	case okT && okF && jT == jF:
		join, fromT, fromF = jT, bT, bF
	case okT && jT == bF:
		join, fromT, fromF = bF, bT, blk
	case okF && jF == bT:
		join, fromT, fromF = bT, blk, bF
	default:
		return false
	}
	if fromT == fromF {
		return false
	}
	// the join must start with phis only fed by these two predecessors (others allowed but unused)
	run := func(b *ssa.BasicBlock) {
		if b == blk {
			return
		}
		for _, in := range b.Instrs[:len(b.Instrs)-1] {
			switch x := in.(type) {
			case *ssa.BinOp:
				st.setLocal(fr, x, st.binop(x.Op, st.eval(fr, x.X), st.eval(fr, x.Y), x.X.Type(), x.Y.Type()))
			case *ssa.UnOp:
				st.execUnOp(nil, fr, x)
			case *ssa.Convert:
				st.setLocal(fr, x, st.convert(st.eval(fr, x.X), x.X.Type(), x.Type()))
			case *ssa.ChangeType:
				st.setLocal(fr, x, st.eval(fr, x.X))
			}
		}
	}
	idxOf := func(p *ssa.BasicBlock) int {
		for k, q := range join.Preds {
			if q == p {
				return k
			}
		}
		return -1
	}
	iT, iF := idxOf(fromT), idxOf(fromF)
	if iT < 0 || iF < 0 {
		return false
	}
	// check mergeability before committing: phi operand types must be scalar
	n := 0
	for _, in := range join.Instrs {
		phi, ok := in.(*ssa.Phi)
		if !ok {
			break
		}
		n++
		if _, _, ok := st.intWidth(phi.Type()); !ok {
			if _, isB := phi.Type().Underlying().(*types.Basic); !isB {
				return false
			}
			return false
		}
	}
	run(fromT)
	run(fromF)
	vals := make([]Value, n)
	for k := 0; k < n; k++ {
		phi := join.Instrs[k].(*ssa.Phi)
		vT := st.eval(fr, phi.Edges[iT])
		vF := st.eval(fr, phi.Edges[iF])
		vals[k] = st.tt.Ite(cond, vT.(*Term), vF.(*Term))
	}
	for k := 0; k < n; k++ {
		st.setLocal(fr, join.Instrs[k].(*ssa.Phi), vals[k])
	}
	fr.prev = fromT
	fr.block = join
	fr.ip = n
	return true
}
