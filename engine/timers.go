package main

// Timers, tickers and the symbolic clock.
//
// Modes (Bounds.TimeMode):
//   "" / "frozen": timers never fire (the property is about behaviour while
//                  every deadline is still in the future); time.Now() is monotone symbolic.
//   "free":        at any scheduling point the environment may fire an armed
//                  timer; firing advances the clock to at least its deadline.
//   "punctual":    discrete-event time: computation takes no time, a timer fires only when
//                  every thread is blocked, the armed timer with the earliest deadline fires
//                  first and the clock then reads exactly max(now, deadline).  Used where the
//                  property is about *when* something happens relative to a threshold.

import (
	"go/types"

	"golang.org/x/tools/go/ssa"
)

type timerObj struct {
	id       int
	ch       *ChanObj
	deadline *Term
	armed    bool
	periodic bool
	fn       FuncV
	hasFn    bool
	obj      *Object
	fired    int
	period   *Term
	never    bool // beyond the scenario's horizon: never fires (vrtBeyondHorizon)
}

func (st *State) newTimerObject(fn *ssa.Function, d *Term, periodic bool) (Ptr, *timerObj) {
	pt := fn.Signature.Results().At(0).Type().(*types.Pointer)
	o := st.newObject(st.zero(pt.Elem()), pt.Elem(), "timer")
	ch := st.newChan(1, nil)
	t := &timerObj{id: len(st.timers), ch: ch, deadline: st.tt.Bin(OpAdd, st.clockNow(), d), armed: true, periodic: periodic, obj: o, period: d}
	ch.timer = t
	st.timers = append(st.timers, t)
	p := Ptr{Obj: o}
	st.storeNoRace(p.sub(st.fieldIndex(p, "C")), ChanV{C: ch})
	st.kv["timer:"+p.key()] = t
	return p, t
}

func (st *State) timerOf(p Ptr) *timerObj {
	t, _ := st.kv["timer:"+p.key()].(*timerObj)
	if t == nil {
		panic(unsupported("timer not created through time.NewTimer/NewTicker/AfterFunc"))
	}
	return t
}

func init() {
	reg("time.NewTimer", func(st *State, th *Thread, fn *ssa.Function, a []Value) (Value, stepStatus) {
		p, _ := st.newTimerObject(fn, a[0].(*Term), false)
		return p, stNext
	})
	reg("time.NewTicker", func(st *State, th *Thread, fn *ssa.Function, a []Value) (Value, stepStatus) {
		p, _ := st.newTimerObject(fn, a[0].(*Term), true)
		return p, stNext
	})
	reg("time.AfterFunc", func(st *State, th *Thread, fn *ssa.Function, a []Value) (Value, stepStatus) {
		p, t := st.newTimerObject(fn, a[0].(*Term), false)
		t.fn, t.hasFn = a[1].(FuncV), true
		return p, stNext
	})
	reg("time.After", func(st *State, th *Thread, fn *ssa.Function, a []Value) (Value, stepStatus) {
		ch := st.newChan(1, nil)
		t := &timerObj{id: len(st.timers), ch: ch, deadline: st.tt.Bin(OpAdd, st.clockNow(), a[0].(*Term)), armed: true}
		ch.timer = t
		st.timers = append(st.timers, t)
		return ChanV{C: ch}, stNext
	})
	reg("time.Sleep", func(st *State, th *Thread, fn *ssa.Function, a []Value) (Value, stepStatus) {
		// sleeping = letting the clock pass the wake-up instant
		tt := st.tt
		wake := tt.Bin(OpAdd, st.clockNow(), a[0].(*Term))
		n := st.freshInternal("now", 64)
		st.assume(tt.Cmp(OpSLe, wake, n))
		st.assume(tt.Cmp(OpSLe, st.now, n))
		st.now = n
		return nil, stNext
	})
	stop := func(st *State, th *Thread, fn *ssa.Function, a []Value) (Value, stepStatus) {
		t := st.timerOf(a[0].(Ptr))
		was := t.armed
		t.armed = false
		if fn.Signature.Results().Len() == 0 {
			return nil, stNext
		}
		return st.tt.Bool(was), stNext
	}
	reg("(*time.Timer).Stop", stop)
	reg("(*time.Ticker).Stop", stop)
	reset := func(st *State, th *Thread, fn *ssa.Function, a []Value) (Value, stepStatus) {
		t := st.timerOf(a[0].(Ptr))
		was := t.armed
		t.armed = true
		t.deadline = st.tt.Bin(OpAdd, st.clockNow(), a[1].(*Term))
		if fn.Signature.Results().Len() == 0 {
			return nil, stNext
		}
		return st.tt.Bool(was), stNext
	}
	reg("(*time.Timer).Reset", reset)
	reg("(*time.Ticker).Reset", reset)
}

// armedTimers returns the timers that may fire now.
func (st *State) armedTimers() []*timerObj {
	if (st.eng.cfg.TimeMode != "free" && st.eng.cfg.TimeMode != "punctual") || st.timersFrozen {
		return nil
	}
	var out []*timerObj
	for _, t := range st.timers {
		if t.armed && !t.never && (t.hasFn || len(t.ch.buf) < t.ch.cap) && t.fired < st.eng.cfg.MaxTimerFires {
			out = append(out, t)
		}
	}
	return out
}

// preemptTimers: the timers that may fire while threads can still run.
func (st *State) preemptTimers() []*timerObj {
	if st.eng.cfg.TimeMode == "punctual" {
		return nil
	}
	return st.armedTimers()
}

// fire delivers timer t: the clock moves to an instant >= its deadline.
func (st *State) fire(t *timerObj) {
	tt := st.tt
	st.clockNow()
	if st.eng.cfg.TimeMode == "punctual" {
		// t is the earliest armed timer, and it fires on time
		c := tt.True
		for _, u := range st.armedTimers() {
			if u != t {
				c = tt.And(c, tt.Cmp(OpSLe, t.deadline, u.deadline))
			}
		}
		if !c.IsTrue() {
			if r, _ := st.w.solver.Check(st.pc, c, false, "feas"); r == Unsat {
				panic(pathAbort{kind: "INFEASIBLE", msg: "timer is not the earliest"})
			}
			st.assume(c)
		}
		st.now = tt.Ite(tt.Cmp(OpSLe, t.deadline, st.now), st.now, t.deadline)
	} else {
		n := st.freshInternal("now", 64)
		st.assume(tt.Cmp(OpSLe, st.now, n))
		st.assume(tt.Cmp(OpSLe, t.deadline, n))
		st.assume(tt.Cmp(OpSLt, n, tt.Const(1<<62, 64)))
		st.now = n
	}
	t.fired++
	if !t.periodic {
		t.armed = false
	} else if st.eng.cfg.TimeMode == "punctual" && t.period != nil {
		t.deadline = tt.Bin(OpAdd, t.deadline, t.period)
	}
	if t.hasFn {
		th := st.newThread(t.fn, nil, "AfterFunc")
		th.vc = nil
		return
	}
	t.ch.buf = append(t.ch.buf, st.mkTime(st.now))
	t.ch.sendVC = append(t.ch.sendVC, nil)
}

// fireTimer is the idle-time environment step: when nothing else can run, an armed timer fires.
func (st *State) fireTimer(onlyIfIdle bool) bool {
	ts := st.armedTimers()
	if len(ts) == 0 {
		return false
	}
	alts := make([]int64, len(ts))
	for i := range ts {
		alts[i] = int64(ts[i].id)
	}
	id := st.decide("timer", alts)
	st.fire(st.timers[id])
	return true
}
