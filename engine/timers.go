package main

type timerObj struct {
	ch       *ChanObj
	deadline *Term
	armed    bool
	fn       FuncV
}

// fireTimer: placeholder until the timer model is built.
func (st *State) fireTimer(onlyIfIdle bool) bool { return false }
