package main

// Environment model: standard-library and third-party stubs (DESIGN.md §3).

import (
	"fmt"
	"go/types"
	"strings"

	"golang.org/x/tools/go/ssa"
)

// ---------- time ----------
// time.Time is kept as its real struct {wall uint64; ext int64; loc *Location}
// with wall = 0, loc = nil and ext = one signed 64-bit ns instant.

func (st *State) mkTime(ns *Term) Value {
	return &StructV{F: []Value{st.tt.Const(0, 64), ns, Ptr{}}}
}

func timeNs(v Value) *Term { return v.(*StructV).F[1].(*Term) }

func (st *State) clockNow() *Term {
	tt := st.tt
	if st.now == nil {
		st.now = st.freshInternal("now", 64)
		// a plausible wall-clock instant: 2^40 ns .. 2^62 ns
		st.assume(tt.Cmp(OpSLt, tt.Const(1<<40, 64), st.now))
		st.assume(tt.Cmp(OpSLt, st.now, tt.Const(1<<62, 64)))
		return st.now
	}
	// the clock advances only through timer firings, time.Sleep and vrtClockAdvance
	return st.now
}

func init() {
	reg("time.Now", simple(func(st *State, a []Value) Value { return st.mkTime(st.clockNow()) }))
	reg("time.Since", simple(func(st *State, a []Value) Value {
		return st.tt.Bin(OpSub, st.clockNow(), timeNs(a[0]))
	}))
	reg("time.Until", simple(func(st *State, a []Value) Value {
		return st.tt.Bin(OpSub, timeNs(a[0]), st.clockNow())
	}))
	reg("(time.Time).Add", simple(func(st *State, a []Value) Value {
		return st.mkTime(st.tt.Bin(OpAdd, timeNs(a[0]), a[1].(*Term)))
	}))
	reg("(time.Time).Sub", simple(func(st *State, a []Value) Value {
		return st.tt.Bin(OpSub, timeNs(a[0]), timeNs(a[1]))
	}))
	reg("(time.Time).Before", simple(func(st *State, a []Value) Value {
		return st.tt.Cmp(OpSLt, timeNs(a[0]), timeNs(a[1]))
	}))
	reg("(time.Time).After", simple(func(st *State, a []Value) Value {
		return st.tt.Cmp(OpSLt, timeNs(a[1]), timeNs(a[0]))
	}))
	reg("(time.Time).Equal", simple(func(st *State, a []Value) Value {
		return st.tt.Eq(timeNs(a[0]), timeNs(a[1]))
	}))
	reg("(time.Time).Compare", simple(func(st *State, a []Value) Value {
		tt := st.tt
		x, y := timeNs(a[0]), timeNs(a[1])
		return tt.Ite(tt.Cmp(OpSLt, x, y), tt.Const(^uint64(0), 64), tt.Ite(tt.Eq(x, y), tt.Const(0, 64), tt.Const(1, 64)))
	}))
	reg("(time.Time).IsZero", simple(func(st *State, a []Value) Value {
		return st.tt.Eq(timeNs(a[0]), st.tt.Const(0, 64))
	}))
	reg("(time.Time).Unix", simple(func(st *State, a []Value) Value {
		return st.tt.Bin(OpSDiv, timeNs(a[0]), st.tt.Const(1000000000, 64))
	}))
	reg("(time.Time).UnixNano", simple(func(st *State, a []Value) Value { return timeNs(a[0]) }))
	reg("(time.Time).UnixMilli", simple(func(st *State, a []Value) Value {
		return st.tt.Bin(OpSDiv, timeNs(a[0]), st.tt.Const(1000000, 64))
	}))
	reg("time.Unix", simple(func(st *State, a []Value) Value {
		tt := st.tt
		return st.mkTime(tt.Bin(OpAdd, tt.Bin(OpMul, a[0].(*Term), tt.Const(1000000000, 64)), a[1].(*Term)))
	}))
	reg("(time.Duration).Seconds", simple(func(st *State, a []Value) Value {
		d := a[0].(*Term)
		if d.IsConst() {
			return FloatV{float64(int64(d.Val)) / 1e9}
		}
		return SymFloat{T: d, Signed: true, Div: 1000000000}
	}))
	reg("(time.Duration).Milliseconds", simple(func(st *State, a []Value) Value {
		return st.tt.Bin(OpSDiv, a[0].(*Term), st.tt.Const(1000000, 64))
	}))
	reg("(time.Duration).String", simple(func(st *State, a []Value) Value { return st.constString("<duration>") }))
	reg("(time.Time).String", simple(func(st *State, a []Value) Value { return st.constString("<time>") }))
}

// ---------- sync / atomic ----------

func init() {
	reg("(*sync.Mutex).Lock", func(st *State, th *Thread, fn *ssa.Function, a []Value) (Value, stepStatus) {
		s, _ := st.lockOp(th, a[0].(Ptr), true, false)
		return nil, s
	})
	reg("(*sync.Mutex).TryLock", func(st *State, th *Thread, fn *ssa.Function, a []Value) (Value, stepStatus) {
		s, ok := st.lockOp(th, a[0].(Ptr), true, true)
		return st.tt.Bool(ok), s
	})
	reg("(*sync.Mutex).Unlock", simple(func(st *State, a []Value) Value { st.unlockOp(st.cur, a[0].(Ptr), true); return nil }))
	reg("(*sync.RWMutex).Lock", func(st *State, th *Thread, fn *ssa.Function, a []Value) (Value, stepStatus) {
		s, _ := st.lockOp(th, a[0].(Ptr), true, false)
		return nil, s
	})
	reg("(*sync.RWMutex).Unlock", simple(func(st *State, a []Value) Value { st.unlockOp(st.cur, a[0].(Ptr), true); return nil }))
	reg("(*sync.RWMutex).RLock", func(st *State, th *Thread, fn *ssa.Function, a []Value) (Value, stepStatus) {
		s, _ := st.lockOp(th, a[0].(Ptr), false, false)
		return nil, s
	})
	reg("(*sync.RWMutex).RUnlock", simple(func(st *State, a []Value) Value { st.unlockOp(st.cur, a[0].(Ptr), false); return nil }))

	reg("(*sync.WaitGroup).Add", simple(func(st *State, a []Value) Value {
		k := a[0].(Ptr).key()
		w := st.wgs[k]
		if w == nil {
			w = &wgState{}
			st.wgs[k] = w
		}
		d := a[1].(*Term)
		if !d.IsConst() {
			panic(unsupported("WaitGroup.Add with symbolic delta"))
		}
		w.n += int64(d.Val)
		if w.n < 0 {
			panic(st.violation("sync: negative WaitGroup counter", nil))
		}
		if int64(d.Val) < 0 {
			w.vc = vcMax(w.vc, st.vcCopy(st.cur))
			st.vcTick(st.cur)
		}
		return nil
	}))
	reg("(*sync.WaitGroup).Done", simple(func(st *State, a []Value) Value {
		k := a[0].(Ptr).key()
		w := st.wgs[k]
		if w == nil {
			w = &wgState{}
			st.wgs[k] = w
		}
		w.n--
		if w.n < 0 {
			panic(st.violation("sync: negative WaitGroup counter", nil))
		}
		w.vc = vcMax(w.vc, st.vcCopy(st.cur))
		st.vcTick(st.cur)
		return nil
	}))
	reg("(*sync.WaitGroup).Wait", func(st *State, th *Thread, fn *ssa.Function, a []Value) (Value, stepStatus) {
		k := a[0].(Ptr).key()
		if !st.syncPoint(th, "wgwait") {
			return nil, stYield
		}
		can := func() bool { w := st.wgs[k]; return w == nil || w.n == 0 }
		if can() {
			if w := st.wgs[k]; w != nil {
				st.vcJoin(th, w.vc)
			}
			st.opDone(th)
			return nil, stNext
		}
		if th.pending == nil {
			panic(st.violation("deadlock: WaitGroup.Wait can never return", nil))
		}
		return nil, st.blockOn(th, can)
	})
	reg("(*sync.Once).Do", func(st *State, th *Thread, fn *ssa.Function, a []Value) (Value, stepStatus) {
		k := a[0].(Ptr).key()
		o := st.onces[k]
		if o == nil {
			o = &onceState{}
			st.onces[k] = o
		}
		if o.done {
			st.vcJoin(th, o.vc)
			return nil, stNext
		}
		if o.running {
			if !st.syncPoint(th, "once") {
				return nil, stYield
			}
			if th.pending == nil {
				panic(st.violation("deadlock: recursive sync.Once.Do", nil))
			}
			return nil, st.blockOn(th, func() bool { return o.done })
		}
		o.running = true
		// run f as an ordinary call; mark done when it returns
		fr := st.top(th)
		fr.ip++
		st.pushCall(th, a[1].(FuncV), nil, nil, func(Value) {
			o.done = true
			o.running = false
			o.vc = st.vcCopy(th)
			st.vcTick(th)
		})
		return nil, stJump
	})

	// sync.Pool: Get returns nil (-> New) or, nondeterministically, a previously Put object
	reg("(*sync.Pool).Get", simple(func(st *State, a []Value) Value {
		p := a[0].(Ptr)
		k := "pool:" + p.key()
		items, _ := st.kv[k].([]Value)
		if len(items) > 0 && st.eng.cfg.PoolReuse {
			alts := []int64{0}
			for i := range items {
				alts = append(alts, int64(i+1))
			}
			c := st.decide("poolget", alts)
			if c > 0 {
				v := items[c-1]
				st.kv[k] = append(append([]Value{}, items[:c-1]...), items[c:]...)
				return v
			}
		}
		// call New if set
		newF := st.load(p.sub(st.fieldIndex(p, "New"))).(FuncV)
		if newF.Fn == nil {
			return IfaceV{}
		}
		return st.callSync(st.cur, newF, nil)
	}))
	reg("(*sync.Pool).Put", simple(func(st *State, a []Value) Value {
		k := "pool:" + a[0].(Ptr).key()
		items, _ := st.kv[k].([]Value)
		st.kv[k] = append(items, a[1])
		return nil
	}))

	atomicLoad := func(st *State, th *Thread, fn *ssa.Function, a []Value) (Value, stepStatus) {
		if st.eng.cfg.AtomicSync && st.multi() {
			if !st.syncPoint(th, "atomic") {
				return nil, stYield
			}
			st.opDone(th)
		}
		p := a[0].(Ptr)
		saved := st.eng.cfg.Race
		_ = saved
		st.atomicAcquire(th, p)
		return st.loadNoRace(p), stNext
	}
	atomicStore := func(st *State, th *Thread, fn *ssa.Function, a []Value) (Value, stepStatus) {
		if st.eng.cfg.AtomicSync && st.multi() {
			if !st.syncPoint(th, "atomic") {
				return nil, stYield
			}
			st.opDone(th)
		}
		p := a[0].(Ptr)
		st.atomicRelease(th, p)
		st.storeNoRace(p, a[1])
		return nil, stNext
	}
	atomicSwap := func(st *State, th *Thread, fn *ssa.Function, a []Value) (Value, stepStatus) {
		if st.eng.cfg.AtomicSync && st.multi() {
			if !st.syncPoint(th, "atomic") {
				return nil, stYield
			}
			st.opDone(th)
		}
		p := a[0].(Ptr)
		st.atomicAcquire(th, p)
		st.atomicRelease(th, p)
		old := st.loadNoRace(p)
		st.storeNoRace(p, a[1])
		return old, stNext
	}
	atomicAdd := func(st *State, th *Thread, fn *ssa.Function, a []Value) (Value, stepStatus) {
		if st.eng.cfg.AtomicSync && st.multi() {
			if !st.syncPoint(th, "atomic") {
				return nil, stYield
			}
			st.opDone(th)
		}
		p := a[0].(Ptr)
		st.atomicAcquire(th, p)
		st.atomicRelease(th, p)
		nv := st.tt.Bin(OpAdd, st.loadNoRace(p).(*Term), a[1].(*Term))
		st.storeNoRace(p, nv)
		return nv, stNext
	}
	atomicCAS := func(st *State, th *Thread, fn *ssa.Function, a []Value) (Value, stepStatus) {
		if st.eng.cfg.AtomicSync && st.multi() {
			if !st.syncPoint(th, "atomic") {
				return nil, stYield
			}
			st.opDone(th)
		}
		p := a[0].(Ptr)
		st.atomicAcquire(th, p)
		st.atomicRelease(th, p)
		cur := st.loadNoRace(p)
		eq := st.eqValue(cur, a[1])
		if st.branch(eq) {
			st.storeNoRace(p, a[2])
			return st.tt.True, stNext
		}
		return st.tt.False, stNext
	}
	for _, t := range []string{"Int32", "Int64", "Uint32", "Uint64", "Uintptr", "Pointer"} {
		reg("sync/atomic.Load"+t, atomicLoad)
		reg("sync/atomic.Store"+t, atomicStore)
		reg("sync/atomic.Swap"+t, atomicSwap)
		reg("sync/atomic.CompareAndSwap"+t, atomicCAS)
		if t != "Pointer" {
			reg("sync/atomic.Add"+t, atomicAdd)
		}
	}
	// atomic.Value: stored as an interface in kv keyed by address
	reg("(*sync/atomic.Value).Load", func(st *State, th *Thread, fn *ssa.Function, a []Value) (Value, stepStatus) {
		if st.eng.cfg.AtomicSync && st.multi() {
			if !st.syncPoint(th, "atomic") {
				return nil, stYield
			}
			st.opDone(th)
		}
		st.atomicAcquire(th, a[0].(Ptr))
		v, ok := st.kv["av:"+a[0].(Ptr).key()]
		if !ok {
			return IfaceV{}, stNext
		}
		return v, stNext
	})
	reg("(*sync/atomic.Value).Store", func(st *State, th *Thread, fn *ssa.Function, a []Value) (Value, stepStatus) {
		if st.eng.cfg.AtomicSync && st.multi() {
			if !st.syncPoint(th, "atomic") {
				return nil, stYield
			}
			st.opDone(th)
		}
		st.atomicRelease(th, a[0].(Ptr))
		st.kv["av:"+a[0].(Ptr).key()] = a[1]
		return nil, stNext
	})
}

func (st *State) atomicAcquire(th *Thread, p Ptr) {
	if st.eng.cfg.Race {
		st.vcJoin(th, st.atomicHB[p.key()])
	}
}

func (st *State) atomicRelease(th *Thread, p Ptr) {
	if st.eng.cfg.Race {
		st.atomicHB[p.key()] = vcMax(st.atomicHB[p.key()], st.vcCopy(th))
		st.vcTick(th)
	}
}

func (st *State) loadNoRace(p Ptr) Value {
	get, _ := st.cellRef(p)
	return copyValue(get())
}

func (st *State) storeNoRace(p Ptr, v Value) {
	_, set := st.cellRef(p)
	set(copyValue(v))
}

func (st *State) fieldIndex(p Ptr, name string) int {
	t := p.Obj.T
	if t == nil {
		panic(unsupported("fieldIndex on untyped object"))
	}
	// walk the path to find the struct type
	for _, i := range p.Path {
		switch u := t.Underlying().(type) {
		case *types.Struct:
			t = u.Field(i).Type()
		case *types.Array:
			t = u.Elem()
		}
	}
	s := t.Underlying().(*types.Struct)
	for i := 0; i < s.NumFields(); i++ {
		if s.Field(i).Name() == name {
			return i
		}
	}
	panic("no field " + name)
}

// ---------- errors / fmt ----------

func (st *State) errChainNext(e IfaceV) (IfaceV, bool) {
	if e.T == st.eng.opaqueErrT {
		o := e.V.(Ptr).Obj.V.(*StructV)
		w := o.F[1].(IfaceV)
		return w, w.T != nil
	}
	if e.T == nil {
		return IfaceV{}, false
	}
	// real type with Unwrap() error
	if st.eng.prog.MethodSets.MethodSet(e.T).Lookup(nil, "Unwrap") == nil {
		return IfaceV{}, false // (LookupMethod panics on a type without the method)
	}
	fn := st.eng.prog.LookupMethod(e.T, nil, "Unwrap")
	if fn == nil {
		return IfaceV{}, false
	}
	if fn.Signature.Results().Len() != 1 || !types.Identical(fn.Signature.Results().At(0).Type(), errorType) {
		return IfaceV{}, false
	}
	r := st.callSync(st.cur, FuncV{Fn: fn}, []Value{e.V})
	w := r.(IfaceV)
	return w, w.T != nil
}

func (st *State) wrapError(msg string, wrapped IfaceV) IfaceV {
	st.nObj++
	o := st.newObject(&StructV{F: []Value{st.constString(msg), wrapped}}, nil, "error "+msg)
	return IfaceV{T: st.eng.opaqueErrT, V: Ptr{Obj: o}}
}

func (st *State) varargs(v Value) []Value {
	s, ok := v.(SliceV)
	if !ok || s.Arr.Obj == nil {
		return nil
	}
	arr := st.arrayAt(s.Arr)
	n := int(s.Len.Val)
	out := make([]Value, n)
	for i := range out {
		out[i] = arr.get(int(s.Off.Val)+i)
	}
	return out
}

func init() {
	reg("fmt.Errorf", simple(func(st *State, a []Value) Value {
		format, _ := st.concreteString(a[0].(StrV))
		var wrapped IfaceV
		if strings.Contains(format, "%w") {
			for _, x := range st.varargs(a[1]) {
				if iv, ok := x.(IfaceV); ok && iv.T != nil && st.implements(iv.T, errorType.Underlying().(*types.Interface)) {
					wrapped = iv
				}
			}
		}
		return st.wrapError("fmt.Errorf:"+format, wrapped)
	}))
	reg("fmt.Sprintf", simple(func(st *State, a []Value) Value {
		format, _ := st.concreteString(a[0].(StrV))
		return st.constString("<sprintf:" + format + ">")
	}))
	reg("fmt.Sprint", simple(func(st *State, a []Value) Value { return st.constString("<sprint>") }))
	reg("fmt.Sprintln", simple(func(st *State, a []Value) Value { return st.constString("<sprintln>") }))
	reg("fmt.Println", simple(func(st *State, a []Value) Value { return st.zero(types.NewTuple(types.NewVar(0, nil, "", types.Typ[types.Int]), types.NewVar(0, nil, "", errorType))) }))
	reg("fmt.Printf", simple(func(st *State, a []Value) Value { return st.zero(types.NewTuple(types.NewVar(0, nil, "", types.Typ[types.Int]), types.NewVar(0, nil, "", errorType))) }))
	reg("errors.Is", simple(func(st *State, a []Value) Value {
		e, target := a[0].(IfaceV), a[1].(IfaceV)
		for depth := 0; depth < 16; depth++ {
			if e.T == nil {
				return st.tt.Bool(target.T == nil && depth == 0)
			}
			if st.errComparable(e) && st.errComparable(target) {
				if c := st.eqValue(e, target); st.branch(c) {
					return st.tt.True
				}
			}
			nx, ok := st.errChainNext(e)
			if !ok {
				return st.tt.False
			}
			e = nx
		}
		return st.tt.False
	}))
	reg("errors.Unwrap", simple(func(st *State, a []Value) Value {
		nx, _ := st.errChainNext(a[0].(IfaceV))
		return nx
	}))
	reg("errors.Join", simple(func(st *State, a []Value) Value {
		var first IfaceV
		for _, x := range st.varargs(a[0]) {
			if iv := x.(IfaceV); iv.T != nil && first.T == nil {
				first = iv
			}
		}
		if first.T == nil {
			return IfaceV{}
		}
		return st.wrapError("errors.Join", first)
	}))
}

func (st *State) errComparable(e IfaceV) bool {
	if e.T == nil {
		return true
	}
	return types.Comparable(e.T)
}

// callNative dispatches engine-provided function values and engine-typed invokes.
func (st *State) callNative(th *Thread, fr *Frame, f FuncV, args []Value) (Value, stepStatus) {
	switch {
	case f.Native == "invoke:Error":
		recv := f.Data.(IfaceV)
		o := recv.V.(Ptr).Obj.V.(*StructV)
		return o.F[0], stNext
	case f.Native == "invoke:Unwrap":
		recv := f.Data.(IfaceV)
		o := recv.V.(Ptr).Obj.V.(*StructV)
		return o.F[1], stNext
	case f.Native == "invoke:Timeout", f.Native == "invoke:Temporary":
		return st.tt.False, stNext
	case f.Native == "noop":
		res, _ := f.Data.(*types.Tuple)
		switch {
		case res == nil || res.Len() == 0:
			return nil, stNext
		case res.Len() == 1:
			return st.zero(res.At(0).Type()), stNext
		}
		return st.zero(res), stNext
	case f.Native == "pool.GetBuf":
		return st.poolGet(args[0].(*Term)), stNext
	case f.Native == "pool.ReleaseBuf":
		st.poolRelease(args[0].(Ptr))
		return nil, stNext
	}
	if h, ok := nativeFns[f.Native]; ok {
		return h(st, th, f, args)
	}
	panic(unsupported("native function " + f.Native))
}

var nativeFns = map[string]func(st *State, th *Thread, f FuncV, args []Value) (Value, stepStatus){}

// ---------- go-bytes-pool model ----------

func (st *State) poolGet(n *Term) Value {
	tt := st.tt
	st.check(tt.Cmp(OpSLe, tt.Const(0, 64), n), "pool.GetBuf: negative size")
	// cap = 2^bits.Len(n) - 1 in the model of DESIGN §3 is simplified to: cap >= len, contents arbitrary
	maxN := st.upperBound(n, "pool.GetBuf")
	arr := &ArrayV{E: make([]Value, maxN)}
	arr.Lazy = func(i int) Value { return st.freshInternal("poolbyte", 8) }
	o := st.newObject(arr, nil, "pool.GetBuf")
	st.poolBufs[o.ID] = true
	slice := SliceV{Arr: Ptr{Obj: o}, Off: tt.Const(0, 64), Len: n, Cap: tt.Const(uint64(maxN), 64)}
	holder := st.newObject(slice, nil, "pool.GetBuf holder")
	st.kv[fmt.Sprintf("poolholder:%d", holder.ID)] = o
	return Ptr{Obj: holder}
}

func (st *State) poolRelease(p Ptr) {
	if p.Obj == nil {
		panic(st.violation("pool.ReleaseBuf(nil)", nil))
	}
	if p.Obj.Poisoned != "" {
		panic(st.violation("pool: double release of buffer ("+p.Obj.Poisoned+")", nil))
	}
	s, ok := p.Obj.V.(SliceV)
	if !ok {
		panic(st.violation("pool.ReleaseBuf: not a *[]byte", nil))
	}
	if s.Arr.Obj != nil {
		if !st.poolBufs[s.Arr.Obj.ID] {
			// go-bytes-pool panics on buffers with an unexpected capacity; foreign buffers are a violation
			st.noteAssumption("pool.ReleaseBuf on a buffer not obtained from pool.GetBuf is accepted by the model")
		}
		if s.Arr.Obj.Poisoned != "" {
			panic(st.violation("pool: double release of buffer ("+s.Arr.Obj.Poisoned+")", nil))
		}
		s.Arr.Obj.Poisoned = "released at " + st.curSite()
	}
	p.Obj.Poisoned = "released at " + st.curSite()
}

// ---------- misc ----------

func init() {
	reg("hash/maphash.String", simple(func(st *State, a []Value) Value {
		s := a[1].(StrV)
		// uninterpreted function with Ackermann congruence: equal strings -> equal sums, nothing else
		type rec struct {
			s StrV
			r *Term
		}
		if cs, ok := st.concreteString(s); ok {
			h := uint64(1469598103934665603)
			for i := 0; i < len(cs); i++ {
				h = (h ^ uint64(cs[i])) * 1099511628211
			}
			return st.tt.Const(h, 64)
		}
		prev, _ := st.kv["maphash"].([]rec)
		r := st.freshInternal("maphash", 64)
		for _, p := range prev {
			st.assume(st.tt.Implies(st.strEq(s, p.s), st.tt.Eq(r, p.r)))
		}
		st.kv["maphash"] = append(prev, rec{s, r})
		// shard symmetry: the 64 shards of concurrent_map are identical, only "same shard or not" matters
		st.noteAssumption("hash sums of symbolic keys are restricted to two shard residues (sum mod 64 in {0,1}); the shards are symmetric")
		st.assume(st.tt.Cmp(OpULt, st.tt.Bin(OpBAnd, r, st.tt.Const(63, 64)), st.tt.Const(2, 64)))
		return r
	}))
	reg("hash/maphash.MakeSeed", simple(func(st *State, a []Value) Value { return st.zero(a0type("hash/maphash.Seed")) }))
	reg("math/rand/v2.IntN", simple(func(st *State, a []Value) Value {
		n := a[0].(*Term)
		r := st.fresh("rand", 64)
		st.assume(st.tt.Cmp(OpULt, r, n))
		return r
	}))
	reg("math/rand.Intn", intrinsics["math/rand/v2.IntN"])
	reg("math/bits.Len", simple(func(st *State, a []Value) Value { return st.bitsLen(a[0].(*Term)) }))
	reg("math/bits.Len64", simple(func(st *State, a []Value) Value { return st.bitsLen(a[0].(*Term)) }))
	reg("math/bits.Len32", simple(func(st *State, a []Value) Value { return st.bitsLen(a[0].(*Term)) }))
	reg("math/bits.Len16", simple(func(st *State, a []Value) Value { return st.bitsLen(a[0].(*Term)) }))
	reg("math/bits.Len8", simple(func(st *State, a []Value) Value { return st.bitsLen(a[0].(*Term)) }))
	reg("math/bits.LeadingZeros64", simple(func(st *State, a []Value) Value {
		return st.tt.Bin(OpSub, st.tt.Const(64, 64), st.bitsLen(a[0].(*Term)))
	}))
	reg("math/bits.TrailingZeros64", simple(func(st *State, a []Value) Value {
		x := a[0].(*Term)
		tt := st.tt
		res := tt.Const(64, 64)
		for i := 63; i >= 0; i-- {
			bit := tt.Extract(x, i, i)
			res = tt.Ite(tt.Eq(bit, tt.Const(1, 1)), tt.Const(uint64(i), 64), res)
		}
		return res
	}))
	reg("runtime.KeepAlive", simple(func(st *State, a []Value) Value { return nil }))
	reg("runtime.SetFinalizer", simple(func(st *State, a []Value) Value { return nil }))
	reg("runtime.Gosched", simple(func(st *State, a []Value) Value { return nil }))
	reg("internal/race.Enable", simple(func(st *State, a []Value) Value { return nil }))
	reg("internal/race.Disable", simple(func(st *State, a []Value) Value { return nil }))
	reg("internal/race.Acquire", simple(func(st *State, a []Value) Value { return nil }))
	reg("internal/race.Release", simple(func(st *State, a []Value) Value { return nil }))
	reg("internal/race.ReleaseMerge", simple(func(st *State, a []Value) Value { return nil }))
	reg("internal/race.Read", simple(func(st *State, a []Value) Value { return nil }))
	reg("internal/race.Write", simple(func(st *State, a []Value) Value { return nil }))
	reg("internal/race.ReadRange", simple(func(st *State, a []Value) Value { return nil }))
	reg("internal/race.WriteRange", simple(func(st *State, a []Value) Value { return nil }))
	reg("internal/race.Errors", simple(func(st *State, a []Value) Value { return st.tt.Const(0, 64) }))
}

func a0type(string) types.Type { return types.NewStruct(nil, nil) }

func (st *State) bitsLen(x *Term) *Term {
	tt := st.tt
	res := tt.Const(0, 64)
	for i := 0; i < x.W; i++ {
		bit := tt.Extract(x, i, i)
		res = tt.Ite(tt.Eq(bit, tt.Const(1, 1)), tt.Const(uint64(i+1), 64), res)
	}
	return res
}

// ---------- miekg/dns codec boundary ----------

func init() {
	// Truncate is recorded, not encoded: (size, number of additional records at the time of the call)
	reg("(*github.com/miekg/dns.Msg).Truncate", simple(func(st *State, a []Value) Value {
		p := a[0].(Ptr)
		k := "truncate:" + p.key()
		calls, _ := st.kv[k].([]Value)
		extra := st.load(p.sub(st.fieldIndex(p, "Extra"))).(SliceV)
		st.kv[k] = append(calls, TupleV{a[1], extra.Len})
		// for messages that fit (the harness bound) the real function only clears Compress
		st.storeNoRace(p.sub(st.fieldIndex(p, "Compress")), st.tt.False)
		return nil
	}))
	vrtPrims["vrtFitsUDP"] = simple(func(st *State, a []Value) Value {
		p := a[0].(Ptr)
		calls, _ := st.kv["truncate:"+p.key()].([]Value)
		if len(calls) != 1 {
			return st.tt.False
		}
		c := calls[0].(TupleV)
		extra := st.load(p.sub(st.fieldIndex(p, "Extra"))).(SliceV)
		return st.tt.And(st.tt.Eq(c[0].(*Term), a[1].(*Term)), st.tt.Eq(c[1].(*Term), extra.Len))
	})
}

// dns.Msg.Pack / PackBuffer / Len are a contract, not an encoding: a message has a wire image
// (arbitrary bytes of arbitrary length 12..24, fixed per message object); PackBuffer may build it
// in the caller's buffer or in a fresh one (both are explored), or fail.
// headerOnly: the message has no section at all -> its wire form is exactly the 12-byte header.
func (st *State) headerOnly(p Ptr) (SliceV, bool) {
	tt := st.tt
	for _, sec := range []string{"Question", "Answer", "Ns", "Extra"} {
		s := st.load(p.sub(st.fieldIndex(p, sec))).(SliceV)
		if !s.Len.IsConst() || s.Len.Val != 0 {
			return SliceV{}, false
		}
	}
	h := p.sub(st.fieldIndex(p, "MsgHdr"))
	get := func(name string) *Term { return st.load(h.sub(st.fieldIndex(h, name))).(*Term) }
	bit := func(name string, k uint) *Term {
		return tt.Ite(get(name), tt.Const(1<<k, 8), tt.Const(0, 8))
	}
	id := get("Id")
	b2 := tt.Bin(OpBOr, bit("Response", 7), tt.Bin(OpBOr, tt.Bin(OpShl, tt.Bin(OpBAnd, tt.Extract(get("Opcode"), 7, 0), tt.Const(0xf, 8)), tt.Const(3, 8)),
		tt.Bin(OpBOr, bit("Authoritative", 2), tt.Bin(OpBOr, bit("Truncated", 1), bit("RecursionDesired", 0)))))
	b3 := tt.Bin(OpBOr, bit("RecursionAvailable", 7), tt.Bin(OpBOr, bit("Zero", 6), tt.Bin(OpBOr, bit("AuthenticatedData", 5),
		tt.Bin(OpBOr, bit("CheckingDisabled", 4), tt.Bin(OpBAnd, tt.Extract(get("Rcode"), 7, 0), tt.Const(0xf, 8))))))
	bs := []*Term{tt.Extract(id, 15, 8), tt.Extract(id, 7, 0), b2, b3}
	for i := 0; i < 8; i++ {
		bs = append(bs, tt.Const(0, 8))
	}
	o := st.bytesObject(bs, "header wire image")
	n := tt.Const(12, 64)
	return SliceV{Arr: Ptr{Obj: o}, Off: tt.Const(0, 64), Len: n, Cap: n}, true
}

func (st *State) wireImage(p Ptr) SliceV {
	if h, ok := st.headerOnly(p); ok {
		return h
	}
	k := "wire:" + p.key()
	if v, ok := st.kv[k]; ok {
		return v.(SliceV)
	}
	tt := st.tt
	n := st.freshInternal("wirelen", 64)
	c := tt.RawULt(n, tt.Const(25, 64))
	n.RHi = 24
	st.assume(c)
	st.assume(tt.Cmp(OpULe, tt.Const(12, 64), n))
	bs := make([]*Term, 24)
	for i := range bs {
		bs[i] = st.freshInternal("wire", 8)
	}
	o := st.bytesObject(bs, "wire image")
	s := SliceV{Arr: Ptr{Obj: o}, Off: tt.Const(0, 64), Len: n, Cap: n}
	st.kv[k] = s
	return s
}

func init() {
	errTuple := func(st *State, v Value, msg string) Value {
		if msg == "" {
			return TupleV{v, IfaceV{}}
		}
		return TupleV{v, st.opaqueError(msg)}
	}
	// whether a message can be packed at all is decided once per message object
	packFails := func(st *State, p Ptr) bool {
		if _, ok := st.headerOnly(p); ok {
			return false
		}
		k := "packfail:" + p.key()
		if v, ok := st.kv[k]; ok {
			return v.(bool)
		}
		f := st.decide("packfails", []int64{0, 1}) == 1
		st.kv[k] = f
		return f
	}
	reg("(*github.com/miekg/dns.Msg).Pack", simple(func(st *State, a []Value) Value {
		if packFails(st, a[0].(Ptr)) {
			z := st.tt.Const(0, 64)
			return errTuple(st, SliceV{Off: z, Len: z, Cap: z}, "dns: pack error")
		}
		w := st.wireImage(a[0].(Ptr))
		fresh := st.makeSlice(byteType, w.Len, w.Len)
		st.builtinCopy(fresh, w)
		return errTuple(st, fresh, "")
	}))
	reg("(*github.com/miekg/dns.Msg).Len", simple(func(st *State, a []Value) Value {
		return st.wireImage(a[0].(Ptr)).Len
	}))
	reg("(*github.com/miekg/dns.Msg).PackBuffer", simple(func(st *State, a []Value) Value {
		if packFails(st, a[0].(Ptr)) {
			z := st.tt.Const(0, 64)
			return errTuple(st, SliceV{Off: z, Len: z, Cap: z}, "dns: pack error")
		}
		w := st.wireImage(a[0].(Ptr))
		buf := a[1].(SliceV)
		switch st.decide("packbuffer", []int64{0, 1}) {
		case 0: // built in the caller's buffer when it is large enough
			if buf.Arr.Obj != nil && st.branch(st.tt.Cmp(OpULe, w.Len, buf.Len)) {
				dst := SliceV{Arr: buf.Arr, Off: buf.Off, Len: w.Len, Cap: buf.Cap}
				st.builtinCopy(dst, w)
				return errTuple(st, dst, "")
			}
			fallthrough
		case 1: // the library allocated a fresh buffer
			fresh := st.makeSlice(byteType, w.Len, w.Len)
			st.builtinCopy(fresh, w)
			return errTuple(st, fresh, "")
		}
		panic("unreachable")
	}))
}

// dns.Msg.Unpack: header-only contract.  The 12-byte header is decoded per RFC 1035
// (ID, flag bits, opcode, rcode); section contents are not decoded (harness payloads are
// header-only messages - a header with zero section counts, possibly followed by bytes the
// real function ignores - for which the real function yields the same result on a fresh Msg).
func init() {
	reg("(*github.com/miekg/dns.Msg).Unpack", simple(func(st *State, a []Value) Value {
		tt := st.tt
		p := a[0].(Ptr)
		b := a[1].(SliceV)
		if st.branch(tt.Cmp(OpULt, b.Len, tt.Const(12, 64))) {
			return st.opaqueError("dns: overflow unpacking header")
		}
		// bytes after the header are ignored by the real function when all section counts are
		// zero (checked below); messages with sections are not modelled
		arr := st.arrayAt(b.Arr)
		at := func(i int) *Term { return st.sliceElem(arr, b.Off, i).(*Term) }
		set := func(name string, v Value) { st.storeNoRace(p.sub(st.fieldIndex(p, "MsgHdr")).sub(st.hdrField(p, name)), v) }
		bit := func(x *Term, k int) *Term { return tt.Eq(tt.Extract(x, k, k), tt.Const(1, 1)) }
		set("Id", tt.Concat(at(0), at(1)))
		set("Response", bit(at(2), 7))
		set("Opcode", tt.ZExt(tt.Extract(at(2), 6, 3), 64))
		set("Authoritative", bit(at(2), 2))
		set("Truncated", bit(at(2), 1))
		set("RecursionDesired", bit(at(2), 0))
		set("RecursionAvailable", bit(at(3), 7))
		set("Zero", bit(at(3), 6))
		set("AuthenticatedData", bit(at(3), 5))
		set("CheckingDisabled", bit(at(3), 4))
		set("Rcode", tt.ZExt(tt.Extract(at(3), 3, 0), 64))
		for i := 4; i < 12; i++ {
			if !st.branch(tt.Eq(at(i), tt.Const(0, 8))) {
				panic(unsupported("dns.Msg.Unpack: non-zero section counts"))
			}
		}
		return IfaceV{}
	}))
}

func (st *State) hdrField(p Ptr, name string) int {
	q := p.sub(st.fieldIndex(p, "MsgHdr"))
	return st.fieldIndex(q, name)
}
