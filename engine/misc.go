package main

import (
	"go/token"
	"go/types"

	"golang.org/x/tools/go/ssa"
)

func makeOpaqueErrType() types.Type {
	pkg := types.NewPackage("vrt/engine", "engine")
	tn := types.NewTypeName(token.NoPos, pkg, "opaqueError", nil)
	return types.NewNamed(tn, types.NewStruct(nil, nil), nil)
}

// globalInit gives selected package-level variables their initial values
// (package initialisers are not executed).
func globalInit(st *State, g *ssa.Global, o *Object) {
	switch g.String() {
	case "github.com/IrineSistiana/mosdns/v5/pkg/pool.GetBuf":
		o.V = FuncV{Native: "pool.GetBuf"}
	case "github.com/IrineSistiana/mosdns/v5/pkg/pool.ReleaseBuf":
		o.V = FuncV{Native: "pool.ReleaseBuf"}
	case "context.closedchan":
		c := st.newChan(0, types.NewStruct(nil, nil))
		c.closed = true
		o.V = ChanV{C: c}
	case "net/netip.z4", "net/netip.z6noz":
		// unique.Make(addrDetail{...}): a handle is a struct holding a canonical pointer
		ht := o.T.Underlying().(*types.Struct)
		dt := ht.Field(0).Type().(*types.Pointer).Elem()
		d := st.zero(dt).(*StructV)
		if g.Name() == "z6noz" {
			d.F[0] = st.tt.True
		}
		o.V = &StructV{F: []Value{Ptr{Obj: st.newObject(d, dt, "unique "+g.Name())}}}
	}
}

// envStep lets the environment (clock/timers) make progress when no thread is enabled.
func (st *State) envStep() bool { return st.fireTimer(true) }

func init() {
	vrtPrims["vrtParam"] = simple(func(st *State, args []Value) Value {
		name := st.mustConcreteString(args[0], "vrtParam")
		if v, ok := st.eng.cfg.Params[name]; ok {
			return st.tt.Const(uint64(int64(v)), 64)
		}
		return args[1]
	})
}

var byteType = types.Typ[types.Uint8]
