package main

import (
	"fmt"
	"go/token"
	"go/types"
	"strings"

	"golang.org/x/tools/go/ssa"
)

func (st *State) exec(th *Thread, fr *Frame, in ssa.Instruction) stepStatus {
	tt := st.tt
	switch x := in.(type) {
	case *ssa.DebugRef:
		return stNext
	case *ssa.Alloc:
		et := x.Type().(*types.Pointer).Elem()
		o := st.newObject(st.zero(et), et, "")
		st.setLocal(fr, x, Ptr{Obj: o})
		return stNext
	case *ssa.UnOp:
		return st.execUnOp(th, fr, x)
	case *ssa.BinOp:
		a, b := st.eval(fr, x.X), st.eval(fr, x.Y)
		st.setLocal(fr, x, st.binop(x.Op, a, b, x.X.Type(), x.Y.Type()))
		return stNext
	case *ssa.Store:
		p := st.eval(fr, x.Addr).(Ptr)
		st.store(p, st.eval(fr, x.Val))
		return stNext
	case *ssa.FieldAddr:
		p := st.eval(fr, x.X).(Ptr)
		if p.Obj == nil {
			return st.runtimePanic(th, "nil pointer dereference (field address)")
		}
		if p.SymIdx != nil {
			p = st.concretizePtr(p)
		}
		st.setLocal(fr, x, p.sub(x.Field))
		return stNext
	case *ssa.Field:
		s := st.eval(fr, x.X).(*StructV)
		st.setLocal(fr, x, copyValue(s.F[x.Field]))
		return stNext
	case *ssa.IndexAddr:
		st.setLocal(fr, x, st.indexAddr(st.eval(fr, x.X), st.eval(fr, x.Index).(*Term), x.X.Type(), x.Index.Type()))
		return stNext
	case *ssa.Index:
		xv := st.eval(fr, x.X)
		idx := st.toInt64(st.eval(fr, x.Index).(*Term), x.Index.Type())
		switch a := xv.(type) {
		case *ArrayV:
			st.check(tt.Cmp(OpULt, idx, tt.Const(uint64(len(a.E)), 64)), "index out of range")
			st.setLocal(fr, x, st.symRead(a, idx))
		case StrV:
			st.check(tt.Cmp(OpULt, idx, a.Len), "string index out of range")
			st.setLocal(fr, x, st.symRead(st.strArr(a), tt.Bin(OpAdd, a.Off, idx)))
		default:
			panic(unsupported(fmt.Sprintf("Index on %T", xv)))
		}
		return stNext
	case *ssa.Lookup:
		st.execLookup(fr, x)
		return stNext
	case *ssa.Slice:
		st.setLocal(fr, x, st.sliceOp(fr, x))
		return stNext
	case *ssa.MakeSlice:
		ln := st.toInt64(st.eval(fr, x.Len).(*Term), x.Len.Type())
		cp := st.toInt64(st.eval(fr, x.Cap).(*Term), x.Cap.Type())
		st.setLocal(fr, x, st.makeSlice(x.Type().Underlying().(*types.Slice).Elem(), ln, cp))
		return stNext
	case *ssa.MakeMap:
		mt := x.Type().Underlying().(*types.Map)
		st.nMap++
		st.setLocal(fr, x, MapV{M: &MapObj{ID: st.nMap, KT: mt.Key(), VT: mt.Elem()}})
		return stNext
	case *ssa.MapUpdate:
		m := st.eval(fr, x.Map).(MapV)
		if m.M == nil {
			return st.runtimePanic(th, "assignment to entry in nil map")
		}
		st.mapSet(m.M, st.eval(fr, x.Key), st.eval(fr, x.Value))
		return stNext
	case *ssa.MakeInterface:
		st.setLocal(fr, x, IfaceV{T: x.X.Type(), V: st.eval(fr, x.X)})
		return stNext
	case *ssa.MakeClosure:
		fn := x.Fn.(*ssa.Function)
		env := make([]Value, len(x.Bindings))
		for i, b := range x.Bindings {
			env[i] = st.eval(fr, b)
		}
		st.setLocal(fr, x, FuncV{Fn: fn, Env: env})
		return stNext
	case *ssa.ChangeType:
		st.setLocal(fr, x, st.eval(fr, x.X))
		return stNext
	case *ssa.ChangeInterface:
		st.setLocal(fr, x, st.eval(fr, x.X))
		return stNext
	case *ssa.Convert:
		st.setLocal(fr, x, st.convert(st.eval(fr, x.X), x.X.Type(), x.Type()))
		return stNext
	case *ssa.MultiConvert:
		st.setLocal(fr, x, st.convert(st.eval(fr, x.X), x.X.Type(), x.Type()))
		return stNext
	case *ssa.SliceToArrayPointer:
		s := st.eval(fr, x.X).(SliceV)
		n := x.Type().(*types.Pointer).Elem().Underlying().(*types.Array).Len()
		st.check(tt.Cmp(OpULe, tt.Const(uint64(n), 64), s.Len), "slice to array pointer: length too short")
		if !s.Off.IsConst() || s.Off.Val != 0 || int64(len(st.arrayAt(s.Arr).E)) != n {
			panic(unsupported("SliceToArrayPointer with offset or different size"))
		}
		st.setLocal(fr, x, s.Arr)
		return stNext
	case *ssa.TypeAssert:
		return st.execTypeAssert(th, fr, x)
	case *ssa.Extract:
		t := st.eval(fr, x.Tuple).(TupleV)
		st.setLocal(fr, x, t[x.Index])
		return stNext
	case *ssa.Phi:
		return stNext // handled at jump
	case *ssa.Jump:
		st.jump(fr, fr.block.Succs[0])
		return stJump
	case *ssa.If:
		c := st.eval(fr, x.Cond).(*Term)
		if !c.IsConst() && st.tryIfConvert(fr, c) {
			return stJump
		}
		if st.branch(c) {
			st.jump(fr, fr.block.Succs[0])
		} else {
			st.jump(fr, fr.block.Succs[1])
		}
		return stJump
	case *ssa.Return:
		var ret Value
		switch len(x.Results) {
		case 0:
		case 1:
			ret = st.eval(fr, x.Results[0])
		default:
			tv := make(TupleV, len(x.Results))
			for i, r := range x.Results {
				tv[i] = st.eval(fr, r)
			}
			ret = tv
		}
		st.doReturn(th, fr, ret)
		return stJump
	case *ssa.Call:
		return st.execCall(th, fr, x, x.Common(), x)
	case *ssa.Defer:
		f, args := st.resolveCall(fr, x.Common())
		fr.defers = append(fr.defers, deferred{fn: f, args: args})
		return stNext
	case *ssa.RunDefers:
		if len(fr.defers) > 0 {
			return st.runOneDefer(th, fr) // RunDefers is re-executed after the deferred call returns
		}
		return stNext
	case *ssa.Panic:
		return st.goPanic(th, st.eval(fr, x.X))
	case *ssa.Go:
		return st.execGo(th, fr, x)
	case *ssa.Range:
		xv := st.eval(fr, x.X)
		switch v := xv.(type) {
		case MapV:
			it := &MapIter{M: v.M}
			st.mapRace(v.M, false)
			if v.M != nil {
				it.Order = st.mapOrder(v.M)
			}
			st.setLocal(fr, x, it)
		case StrV:
			vv := v
			st.setLocal(fr, x, &MapIter{Str: &vv})
		default:
			panic(unsupported(fmt.Sprintf("Range over %T", xv)))
		}
		return stNext
	case *ssa.Next:
		st.execNext(fr, x)
		return stNext
	case *ssa.MakeChan:
		sz := st.eval(fr, x.Size).(*Term)
		if !sz.IsConst() {
			panic(unsupported("symbolic channel size"))
		}
		st.setLocal(fr, x, ChanV{C: st.newChan(int(sz.Val), x.Type().Underlying().(*types.Chan).Elem())})
		return stNext
	case *ssa.Send:
		return st.execSend(th, fr, x)
	case *ssa.Select:
		return st.execSelect(th, fr, x)
	}
	panic(unsupported(fmt.Sprintf("instruction %T at %s", in, st.site(fr))))
}

func (st *State) toInt64(t *Term, typ types.Type) *Term {
	if t.W == 64 {
		return t
	}
	_, signed, _ := st.intWidth(typ)
	if signed {
		return st.tt.SExt(t, 64)
	}
	return st.tt.ZExt(t, 64)
}

func (st *State) execUnOp(th *Thread, fr *Frame, x *ssa.UnOp) stepStatus {
	tt := st.tt
	switch x.Op {
	case token.MUL: // load
		p := st.eval(fr, x.X).(Ptr)
		if p.Obj == nil {
			return st.runtimePanic(th, "nil pointer dereference")
		}
		st.setLocal(fr, x, st.load(p))
		return stNext
	case token.ARROW:
		return st.execRecv(th, fr, x)
	case token.NOT:
		st.setLocal(fr, x, tt.Not(st.eval(fr, x.X).(*Term)))
		return stNext
	case token.SUB:
		switch v := st.eval(fr, x.X).(type) {
		case *Term:
			st.setLocal(fr, x, tt.Neg(v))
		case FloatV:
			st.setLocal(fr, x, FloatV{-v.F})
		}
		return stNext
	case token.XOR:
		st.setLocal(fr, x, tt.BNot(st.eval(fr, x.X).(*Term)))
		return stNext
	}
	panic(unsupported("unop " + x.Op.String()))
}

// ---------- arithmetic ----------

func (st *State) binop(op token.Token, a, b Value, ta, tb types.Type) Value {
	tt := st.tt
	switch x := a.(type) {
	case *Term:
		y, ok := b.(*Term)
		if !ok {
			panic(unsupported(fmt.Sprintf("binop %s on term and %T", op, b)))
		}
		if x.W == 0 {
			switch op {
			case token.EQL:
				return tt.Eq(x, y)
			case token.NEQ:
				return tt.Not(tt.Eq(x, y))
			case token.AND:
				return tt.And(x, y)
			case token.OR:
				return tt.Or(x, y)
			}
			panic(unsupported("bool binop " + op.String()))
		}
		_, signed, _ := st.intWidth(ta)
		switch op {
		case token.ADD:
			return tt.Bin(OpAdd, x, y)
		case token.SUB:
			return tt.Bin(OpSub, x, y)
		case token.MUL:
			return tt.Bin(OpMul, x, y)
		case token.QUO, token.REM:
			st.check(tt.Not(tt.Eq(y, tt.Const(0, y.W))), "integer divide by zero")
			o := OpUDiv
			if op == token.REM {
				o = OpURem
			}
			if signed {
				o = OpSDiv
				if op == token.REM {
					o = OpSRem
				}
			}
			return tt.Bin(o, x, y)
		case token.AND:
			return tt.Bin(OpBAnd, x, y)
		case token.OR:
			return tt.Bin(OpBOr, x, y)
		case token.XOR:
			return tt.Bin(OpBXor, x, y)
		case token.AND_NOT:
			return tt.Bin(OpBAnd, x, tt.BNot(y))
		case token.SHL, token.SHR:
			_, ysigned, _ := st.intWidth(tb)
			if ysigned {
				st.check(tt.Cmp(OpSLe, tt.Const(0, y.W), y), "negative shift amount")
			}
			// saturate the count to the width of x
			var cnt *Term
			w := x.W
			if y.W > w {
				big := tt.Cmp(OpULt, tt.Const(uint64(w), y.W), y)
				cnt = tt.Ite(big, tt.Const(uint64(w), w), tt.Extract(y, w-1, 0))
			} else {
				cnt = tt.ZExt(y, w)
			}
			if op == token.SHL {
				return tt.Bin(OpShl, x, cnt)
			}
			if signed {
				return tt.Bin(OpAShr, x, cnt)
			}
			return tt.Bin(OpLShr, x, cnt)
		case token.EQL:
			return tt.Eq(x, y)
		case token.NEQ:
			return tt.Not(tt.Eq(x, y))
		case token.LSS:
			if signed {
				return tt.Cmp(OpSLt, x, y)
			}
			return tt.Cmp(OpULt, x, y)
		case token.LEQ:
			if signed {
				return tt.Cmp(OpSLe, x, y)
			}
			return tt.Cmp(OpULe, x, y)
		case token.GTR:
			if signed {
				return tt.Cmp(OpSLt, y, x)
			}
			return tt.Cmp(OpULt, y, x)
		case token.GEQ:
			if signed {
				return tt.Cmp(OpSLe, y, x)
			}
			return tt.Cmp(OpULe, y, x)
		}
	case FloatV:
		y := b.(FloatV)
		switch op {
		case token.ADD:
			return FloatV{x.F + y.F}
		case token.SUB:
			return FloatV{x.F - y.F}
		case token.MUL:
			return FloatV{x.F * y.F}
		case token.QUO:
			return FloatV{x.F / y.F}
		case token.EQL:
			return tt.Bool(x.F == y.F)
		case token.NEQ:
			return tt.Bool(x.F != y.F)
		case token.LSS:
			return tt.Bool(x.F < y.F)
		case token.LEQ:
			return tt.Bool(x.F <= y.F)
		case token.GTR:
			return tt.Bool(x.F > y.F)
		case token.GEQ:
			return tt.Bool(x.F >= y.F)
		}
	case StrV:
		y := b.(StrV)
		switch op {
		case token.ADD:
			return st.strConcat(x, y)
		case token.EQL:
			return st.strEq(x, y)
		case token.NEQ:
			return tt.Not(st.strEq(x, y))
		case token.LSS:
			return st.strLess(x, y, false)
		case token.LEQ:
			return st.strLess(x, y, true)
		case token.GTR:
			return st.strLess(y, x, false)
		case token.GEQ:
			return st.strLess(y, x, true)
		}
	}
	switch op {
	case token.EQL:
		return st.eqValue(a, b)
	case token.NEQ:
		return tt.Not(st.eqValue(a, b))
	}
	panic(unsupported(fmt.Sprintf("binop %s on %T,%T", op, a, b)))
}

// eqValue: Go == on comparable values.
func (st *State) eqValue(a, b Value) *Term {
	tt := st.tt
	switch x := a.(type) {
	case *Term:
		return tt.Eq(x, b.(*Term))
	case FloatV:
		return tt.Bool(x.F == b.(FloatV).F)
	case StrV:
		return st.strEq(x, b.(StrV))
	case Ptr:
		y, ok := b.(Ptr)
		if !ok {
			return tt.False
		}
		if x.key() != y.key() {
			return tt.False
		}
		if x.SymIdx != nil || y.SymIdx != nil {
			if x.SymIdx != nil && y.SymIdx != nil {
				return tt.Eq(x.SymIdx, y.SymIdx)
			}
			panic(unsupported("pointer comparison with symbolic index"))
		}
		return tt.True
	case IfaceV:
		y, ok := b.(IfaceV)
		if !ok {
			panic(unsupported(fmt.Sprintf("iface == %T", b)))
		}
		if x.T == nil || y.T == nil {
			return tt.Bool(x.T == nil && y.T == nil)
		}
		if !types.Identical(x.T, y.T) {
			return tt.False
		}
		return st.eqValue(x.V, y.V)
	case *StructV:
		y := b.(*StructV)
		r := tt.True
		for i := range x.F {
			r = tt.And(r, st.eqValue(x.F[i], y.F[i]))
		}
		return r
	case *ArrayV:
		y := b.(*ArrayV)
		r := tt.True
		for i := range x.E {
			r = tt.And(r, st.eqValue(x.get(i), y.get(i)))
		}
		return r
	case SliceV: // only vs nil
		y := b.(SliceV)
		if x.Arr.Obj == nil || y.Arr.Obj == nil {
			return tt.Bool(x.Arr.Obj == nil && y.Arr.Obj == nil)
		}
		panic(unsupported("slice comparison"))
	case MapV:
		y := b.(MapV)
		return tt.Bool(x.M == y.M)
	case ChanV:
		y := b.(ChanV)
		return tt.Bool(x.C == y.C)
	case FuncV:
		y := b.(FuncV)
		xn := x.Fn == nil && x.Builtin == nil && x.Native == ""
		yn := y.Fn == nil && y.Builtin == nil && y.Native == ""
		if xn || yn {
			return tt.Bool(xn && yn)
		}
		panic(unsupported("func comparison"))
	case nil:
		return tt.Bool(b == nil)
	}
	panic(unsupported(fmt.Sprintf("eqValue on %T", a)))
}

// ---------- conversions ----------

func (st *State) convert(v Value, from, to types.Type) Value {
	tt := st.tt
	fu, tu := from.Underlying(), to.Underlying()
	if tp, ok := tu.(*types.TypeParam); ok {
		_ = tp
		panic(unsupported("convert to type param"))
	}
	switch x := v.(type) {
	case *Term:
		fw, fs, _ := st.intWidth(fu)
		if tw, _, ok := st.intWidth(tu); ok && tw > 0 {
			_ = fw
			if fs {
				return tt.SExt(x, tw)
			}
			return tt.ZExt(x, tw)
		}
		if tb, ok := tu.(*types.Basic); ok {
			switch tb.Kind() {
			case types.String:
				// string(rune)
				if x.IsConst() && x.Val < 0x80 {
					return st.constString(string(rune(x.Val)))
				}
				panic(unsupported("string(int) with symbolic or non-ASCII value"))
			case types.Float64, types.Float32:
				if x.IsConst() {
					if fs {
						return FloatV{float64(sext64(x.Val, x.W))}
					}
					return FloatV{float64(x.Val)}
				}
				return SymFloat{T: st.toInt64(x, from), Signed: fs}
			case types.UnsafePointer:
				panic(unsupported("uintptr -> unsafe.Pointer"))
			}
		}
	case FloatV:
		if tw, ts, ok := st.intWidth(tu); ok && tw > 0 {
			if ts {
				return tt.Const(uint64(int64(x.F)), tw)
			}
			return tt.Const(uint64(x.F), tw)
		}
		if tb, ok := tu.(*types.Basic); ok && (tb.Kind() == types.Float64 || tb.Kind() == types.Float32) {
			if tb.Kind() == types.Float32 {
				return FloatV{float64(float32(x.F))}
			}
			return x
		}
	case SymFloat:
		// float64(integer) converted back to an integer type: exact for |x| < 2^53
		if tw, _, ok := st.intWidth(tu); ok && tw > 0 {
			st.noteAssumption("float64 round-trip of integers treated as exact (|x| < 2^53)")
			if x.Div != 0 {
				q := tt.Bin(OpSDiv, x.T, tt.Const(uint64(x.Div), 64))
				if tw < 64 {
					// Go's float->int conversion of out-of-range values is implementation-defined; bound it
					st.noteAssumption("Duration.Seconds() result assumed within the target integer range")
				}
				return tt.ZExt(tt.Extract(q, min(tw, 64)-1, 0), tw)
			}
			if tw <= 64 {
				return tt.Extract(x.T, tw-1, 0)
			}
		}
		if tb, ok := tu.(*types.Basic); ok && (tb.Kind() == types.Float64) {
			return x
		}
	case StrV:
		if ts, ok := tu.(*types.Slice); ok {
			if b, ok := ts.Elem().Underlying().(*types.Basic); ok && b.Kind() == types.Uint8 {
				return st.strToBytes(x)
			}
			panic(unsupported("string -> []rune"))
		}
		if _, ok := tu.(*types.Basic); ok {
			return x
		}
	case SliceV:
		if tb, ok := tu.(*types.Basic); ok && tb.Kind() == types.String {
			return st.bytesToStr(x)
		}
		if _, ok := tu.(*types.Slice); ok {
			return x
		}
	case Ptr:
		return x // pointer <-> unsafe.Pointer
	}
	if types.Identical(fu, tu) {
		return v
	}
	panic(unsupported(fmt.Sprintf("convert %T from %s to %s", v, from, to)))
}

// SymFloat is the only symbolic float form: float64(T) (optionally / Div),
// produced by int->float conversions and Duration.Seconds().
type SymFloat struct {
	T      *Term // 64-bit integer
	Signed bool
	Div    int64
}

func (st *State) noteAssumption(s string) {
	st.eng.mu.Lock()
	st.eng.assumptions[s] = true
	st.eng.mu.Unlock()
}

// ---------- strings ----------

// strByte returns byte i (concrete i) of s, or 0 if beyond the backing array.
func (st *State) strByte(arr *ArrayV, off *Term, i int) *Term {
	if off.IsConst() {
		k := int(off.Val) + i
		if k < len(arr.E) {
			return arr.get(k).(*Term)
		}
		return st.tt.Const(0, 8)
	}
	idx := st.tt.Bin(OpAdd, off, st.tt.Const(uint64(i), 64))
	return st.symReadClamp(arr, idx)
}

// symReadClamp reads arr[idx] for a possibly out-of-range symbolic idx (0 if out of range).
func (st *State) symReadClamp(arr *ArrayV, idx *Term) *Term {
	if idx.IsConst() {
		if idx.Val < uint64(len(arr.E)) {
			return arr.get(int(idx.Val)).(*Term)
		}
		return st.tt.Const(0, 8)
	}
	res := st.tt.Const(0, 8)
	n := len(arr.E)
	if n > 64 {
		n = st.idxBound(idx, n)
	}
	for i := n - 1; i >= 0; i-- {
		res = st.tt.Ite(st.tt.Eq(idx, st.tt.Const(uint64(i), 64)), arr.get(i).(*Term), res)
	}
	return res
}

// maxLen returns a concrete upper bound for the length of the window.
func (st *State) maxLenOf(arr Ptr, off, ln *Term) int {
	if ln.IsConst() {
		return int(ln.Val)
	}
	if arr.Obj == nil {
		return 0
	}
	n := len(st.arrayAt(arr).E)
	if off.IsConst() {
		n -= int(off.Val)
	}
	if n < 0 {
		n = 0
	}
	return n
}

func (st *State) strArr(s StrV) *ArrayV {
	if s.Arr.Obj == nil {
		return &ArrayV{}
	}
	return st.arrayAt(s.Arr)
}

func (st *State) strEq(a, b StrV) *Term {
	tt := st.tt
	if a.Arr.Obj == b.Arr.Obj && a.Off == b.Off && a.Len == b.Len && a.Arr.key() == b.Arr.key() {
		return tt.True
	}
	r := tt.Eq(a.Len, b.Len)
	if r.IsFalse() {
		return r
	}
	n := st.maxLenOf(a.Arr, a.Off, a.Len)
	if m := st.maxLenOf(b.Arr, b.Off, b.Len); m < n {
		n = m
	}
	aa, ba := st.strArr(a), st.strArr(b)
	for i := 0; i < n; i++ {
		in := tt.Cmp(OpULt, tt.Const(uint64(i), 64), a.Len)
		e := tt.Eq(st.strByte(aa, a.Off, i), st.strByte(ba, b.Off, i))
		r = tt.And(r, tt.Implies(in, e))
		if r.IsFalse() {
			return r
		}
	}
	return r
}

func (st *State) strLess(a, b StrV, orEq bool) *Term {
	tt := st.tt
	n := st.maxLenOf(a.Arr, a.Off, a.Len)
	if m := st.maxLenOf(b.Arr, b.Off, b.Len); m < n {
		n = m
	}
	aa, ba := st.strArr(a), st.strArr(b)
	// after the common prefix: compare lengths
	var res *Term
	if orEq {
		res = tt.Cmp(OpULe, a.Len, b.Len)
	} else {
		res = tt.Cmp(OpULt, a.Len, b.Len)
	}
	for i := n - 1; i >= 0; i-- {
		ci := tt.Const(uint64(i), 64)
		inBoth := tt.And(tt.Cmp(OpULt, ci, a.Len), tt.Cmp(OpULt, ci, b.Len))
		x, y := st.strByte(aa, a.Off, i), st.strByte(ba, b.Off, i)
		res = tt.Ite(inBoth, tt.Ite(tt.Eq(x, y), res, tt.Cmp(OpULt, x, y)), st.lenCmp(a.Len, b.Len, orEq))
	}
	return res
}

func (st *State) lenCmp(la, lb *Term, orEq bool) *Term {
	if orEq {
		return st.tt.Cmp(OpULe, la, lb)
	}
	return st.tt.Cmp(OpULt, la, lb)
}

func (st *State) strConcat(a, b StrV) StrV {
	tt := st.tt
	if a.Len.IsConst() && a.Len.Val == 0 {
		return b
	}
	if b.Len.IsConst() && b.Len.Val == 0 {
		return a
	}
	na, nb := st.maxLenOf(a.Arr, a.Off, a.Len), st.maxLenOf(b.Arr, b.Off, b.Len)
	aa, ba := st.strArr(a), st.strArr(b)
	out := make([]*Term, na+nb)
	for i := range out {
		var fromA *Term
		if i < na {
			fromA = st.strByte(aa, a.Off, i)
		} else {
			fromA = tt.Const(0, 8)
		}
		if a.Len.IsConst() {
			if i < int(a.Len.Val) {
				out[i] = fromA
			} else {
				out[i] = st.strByte(ba, b.Off, i-int(a.Len.Val))
			}
			continue
		}
		// b[i - la] with symbolic la
		idx := tt.Bin(OpAdd, b.Off, tt.Bin(OpSub, tt.Const(uint64(i), 64), a.Len))
		fromB := st.symReadClamp(ba, idx)
		out[i] = tt.Ite(tt.Cmp(OpULt, tt.Const(uint64(i), 64), a.Len), fromA, fromB)
	}
	o := st.bytesObject(out, "concat")
	o.Frozen = true
	return StrV{Arr: Ptr{Obj: o}, Off: tt.Const(0, 64), Len: tt.Bin(OpAdd, a.Len, b.Len)}
}

func (st *State) strToBytes(s StrV) SliceV {
	tt := st.tt
	n := st.maxLenOf(s.Arr, s.Off, s.Len)
	sa := st.strArr(s)
	out := make([]*Term, n)
	for i := range out {
		out[i] = st.strByte(sa, s.Off, i)
	}
	o := st.bytesObject(out, "[]byte(string)")
	if n == 0 && s.Len.IsConst() {
		// Go: []byte("") is non-nil empty slice
	}
	return SliceV{Arr: Ptr{Obj: o}, Off: tt.Const(0, 64), Len: s.Len, Cap: tt.Const(uint64(n), 64)}
}

func (st *State) bytesToStr(s SliceV) StrV {
	tt := st.tt
	if s.Arr.Obj == nil {
		return StrV{Off: tt.Const(0, 64), Len: tt.Const(0, 64)}
	}
	n := st.maxLenOf(s.Arr, s.Off, s.Len)
	sa := st.arrayAt(s.Arr)
	out := make([]*Term, n)
	for i := range out {
		out[i] = st.strByte(sa, s.Off, i)
	}
	o := st.bytesObject(out, "string([]byte)")
	o.Frozen = true
	return StrV{Arr: Ptr{Obj: o}, Off: tt.Const(0, 64), Len: s.Len}
}

// ---------- slices ----------

// upperBound finds a concrete upper bound for a 64-bit term from a ladder.
func (st *State) upperBound(t *Term, what string) int {
	if t.IsConst() {
		return int(t.Val)
	}
	ladder := []uint64{8, 16, 32, 64, 128, 256, 512, 1024, 4096, 16384, 70000}
	if st.eng.cfg.MaxAlloc > 70000 {
		ladder = append(ladder, uint64(st.eng.cfg.MaxAlloc))
	}
	for _, c := range ladder {
		if int(c) > st.eng.cfg.MaxAlloc {
			break
		}
		r, _ := st.w.solver.Check(st.pc, st.tt.Cmp(OpULt, st.tt.Const(c, 64), t), false, "feas")
		if r == Unsat {
			return int(c)
		}
	}
	panic(pathAbort{kind: "UNWIND", msg: fmt.Sprintf("%s: symbolic size not bounded by MaxAlloc=%d at %s", what, st.eng.cfg.MaxAlloc, st.curSite())})
}

func (st *State) makeSlice(elem types.Type, ln, cp *Term) SliceV {
	tt := st.tt
	st.check(tt.Cmp(OpSLe, tt.Const(0, 64), ln), "makeslice: len out of range")
	st.check(tt.Cmp(OpSLe, ln, cp), "makeslice: cap out of range")
	n := st.upperBound(cp, "make")
	arr := &ArrayV{E: make([]Value, n)}
	if n > 0 {
		z := st.zero(elem)
		for i := range arr.E {
			if i == 0 {
				arr.E[i] = z
			} else {
				arr.E[i] = copyValue(z)
			}
		}
	}
	o := st.newObject(arr, nil, "make")
	return SliceV{Arr: Ptr{Obj: o}, Off: tt.Const(0, 64), Len: ln, Cap: cp}
}

func (st *State) indexAddr(xv Value, idx *Term, xt, it types.Type) Ptr {
	tt := st.tt
	idx = st.toInt64(idx, it)
	switch x := xv.(type) {
	case SliceV:
		st.check(tt.Cmp(OpULt, idx, x.Len), "index out of range")
		pos := tt.Bin(OpAdd, x.Off, idx)
		if pos.IsConst() {
			return x.Arr.sub(int(pos.Val))
		}
		return Ptr{Obj: x.Arr.Obj, Path: x.Arr.Path, SymIdx: pos}
	case Ptr: // *array
		if x.Obj == nil {
			panic(st.violation("nil pointer dereference (index)", nil))
		}
		if x.SymIdx != nil {
			x = st.concretizePtr(x)
		}
		n := len(st.arrayAt(x).E)
		st.check(tt.Cmp(OpULt, idx, tt.Const(uint64(n), 64)), "index out of range")
		if idx.IsConst() {
			return x.sub(int(idx.Val))
		}
		return Ptr{Obj: x.Obj, Path: x.Path, SymIdx: idx}
	}
	panic(unsupported(fmt.Sprintf("IndexAddr on %T", xv)))
}

func (st *State) sliceOp(fr *Frame, x *ssa.Slice) Value {
	tt := st.tt
	xv := st.eval(fr, x.X)
	get := func(v ssa.Value) *Term {
		if v == nil {
			return nil
		}
		return st.toInt64(st.eval(fr, v).(*Term), v.Type())
	}
	lo, hi, mx := get(x.Low), get(x.High), get(x.Max)
	if lo == nil {
		lo = tt.Const(0, 64)
	}
	switch s := xv.(type) {
	case StrV:
		if hi == nil {
			hi = s.Len
		}
		st.check(tt.Cmp(OpULe, hi, s.Len), "slice bounds out of range (string high)")
		st.check(tt.Cmp(OpULe, lo, hi), "slice bounds out of range (string low)")
		return StrV{Arr: s.Arr, Off: tt.Bin(OpAdd, s.Off, lo), Len: tt.Bin(OpSub, hi, lo)}
	case SliceV:
		if hi == nil {
			hi = s.Len
		}
		if mx == nil {
			mx = s.Cap
		} else {
			st.check(tt.Cmp(OpULe, mx, s.Cap), "slice bounds out of range (max)")
		}
		st.check(tt.Cmp(OpULe, hi, mx), "slice bounds out of range (high)")
		st.check(tt.Cmp(OpULe, lo, hi), "slice bounds out of range (low)")
		if s.Arr.Obj == nil {
			return s
		}
		return SliceV{Arr: s.Arr, Off: tt.Bin(OpAdd, s.Off, lo), Len: tt.Bin(OpSub, hi, lo), Cap: tt.Bin(OpSub, mx, lo)}
	case Ptr: // *array
		if s.Obj == nil {
			panic(st.violation("nil pointer dereference (slice of *array)", nil))
		}
		n := tt.Const(uint64(len(st.arrayAt(s).E)), 64)
		if hi == nil {
			hi = n
		}
		if mx == nil {
			mx = n
		} else {
			st.check(tt.Cmp(OpULe, mx, n), "slice bounds out of range (max)")
		}
		st.check(tt.Cmp(OpULe, hi, mx), "slice bounds out of range (high)")
		st.check(tt.Cmp(OpULe, lo, hi), "slice bounds out of range (low)")
		return SliceV{Arr: s, Off: lo, Len: tt.Bin(OpSub, hi, lo), Cap: tt.Bin(OpSub, mx, lo)}
	}
	panic(unsupported(fmt.Sprintf("Slice on %T", xv)))
}

// elemAt reads element (off+i) of a slice backing array for concrete i.
func (st *State) sliceElem(arr *ArrayV, off *Term, i int) Value {
	if off.IsConst() {
		return arr.get(int(off.Val)+i)
	}
	return st.symRead(arr, st.tt.Bin(OpAdd, off, st.tt.Const(uint64(i), 64)))
}

func (st *State) builtinCopy(dst SliceV, src Value) *Term {
	tt := st.tt
	var sArr *ArrayV
	var sOff, sLen *Term
	var sPtr Ptr
	switch s := src.(type) {
	case SliceV:
		if s.Arr.Obj == nil {
			return tt.Const(0, 64)
		}
		sArr, sOff, sLen, sPtr = st.arrayAt(s.Arr), s.Off, s.Len, s.Arr
	case StrV:
		if s.Arr.Obj == nil {
			return tt.Const(0, 64)
		}
		sArr, sOff, sLen, sPtr = st.arrayAt(s.Arr), s.Off, s.Len, s.Arr
	}
	if dst.Arr.Obj == nil {
		return tt.Const(0, 64)
	}
	if dst.Arr.Obj.Frozen {
		panic(st.violation("write to immutable (string) data", nil))
	}
	dArr := st.arrayAt(dst.Arr)
	st.raceAccess(dst.Arr, true)
	st.raceAccess(sPtr, false)
	n := tt.Ite(tt.Cmp(OpULt, dst.Len, sLen), dst.Len, sLen)
	maxN := st.maxLenOf(dst.Arr, dst.Off, dst.Len)
	if m := st.maxLenOf(sPtr, sOff, sLen); m < maxN {
		maxN = m
	}
	if n.IsConst() {
		maxN = int(n.Val)
	}
	dstBound := len(dArr.E)
	// read first (memmove semantics)
	vals := make([]Value, maxN)
	for i := 0; i < maxN; i++ {
		if sOff.IsConst() {
			k := int(sOff.Val) + i
			if k < len(sArr.E) {
				vals[i] = sArr.get(k)
			} else {
				vals[i] = nil
			}
		} else {
			vals[i] = st.symRead(sArr, tt.Bin(OpAdd, sOff, tt.Const(uint64(i), 64)))
		}
	}
	for i := 0; i < maxN; i++ {
		if vals[i] == nil {
			continue
		}
		in := tt.Cmp(OpULt, tt.Const(uint64(i), 64), n)
		if dst.Off.IsConst() {
			k := int(dst.Off.Val) + i
			if k >= len(dArr.E) {
				continue
			}
			dArr.E[k] = st.merge(in, copyValue(vals[i]), dArr.get(k))
		} else {
			pos := tt.Bin(OpAdd, dst.Off, tt.Const(uint64(i), 64))
			if i == 0 {
				dstBound = st.idxBound(dst.Off, len(dArr.E))
			}
			for k := 0; k < len(dArr.E) && k < dstBound+i; k++ {
				c := tt.And(in, tt.Eq(pos, tt.Const(uint64(k), 64)))
				dArr.E[k] = st.merge(c, copyValue(vals[i]), dArr.get(k))
			}
		}
	}
	return n
}

func (st *State) builtinAppend(s SliceV, add Value, elemT types.Type) SliceV {
	tt := st.tt
	var aLen *Term
	switch a := add.(type) {
	case SliceV:
		aLen = a.Len
	case StrV:
		aLen = a.Len
	}
	if aLen.IsConst() && aLen.Val == 0 {
		return s
	}
	newLen := tt.Bin(OpAdd, s.Len, aLen)
	fits := tt.Cmp(OpULe, newLen, s.Cap)
	if s.Arr.Obj != nil && st.branch(fits) {
		dst := SliceV{Arr: s.Arr, Off: tt.Bin(OpAdd, s.Off, s.Len), Len: aLen, Cap: aLen}
		st.builtinCopy(dst, add)
		return SliceV{Arr: s.Arr, Off: s.Off, Len: newLen, Cap: s.Cap}
	}
	// grow: new backing array
	oldMax := st.maxLenOf(s.Arr, s.Off, s.Len)
	var addMax int
	switch a := add.(type) {
	case SliceV:
		addMax = st.maxLenOf(a.Arr, a.Off, a.Len)
	case StrV:
		addMax = st.maxLenOf(a.Arr, a.Off, a.Len)
	}
	need := oldMax + addMax
	capN := need
	if s.Cap.IsConst() && newLen.IsConst() {
		need = int(newLen.Val)
		capN = need
		if c2 := 2 * int(s.Cap.Val); c2 > capN {
			capN = c2
		}
	}
	arr := &ArrayV{E: make([]Value, capN)}
	for i := range arr.E {
		arr.E[i] = st.zero(elemT)
	}
	o := st.newObject(arr, nil, "append")
	ns := SliceV{Arr: Ptr{Obj: o}, Off: tt.Const(0, 64), Len: s.Len, Cap: tt.Const(uint64(capN), 64)}
	if s.Arr.Obj != nil {
		st.builtinCopy(ns, s)
	}
	dst := SliceV{Arr: ns.Arr, Off: s.Len, Len: aLen, Cap: aLen}
	st.builtinCopy(dst, add)
	ns.Len = newLen
	return ns
}

// ---------- maps ----------

func (st *State) mapRace(m *MapObj, write bool) {
	if st.eng.cfg.Race && m != nil {
		if m.shadow == nil {
			m.shadow = st.newObject(st.tt.Const(0, 8), nil, "map")
		}
		st.raceAccess(Ptr{Obj: m.shadow}, write)
	}
}

func (st *State) mapFind(m *MapObj, k Value) int {
	for i, e := range m.Entries {
		c := st.eqValue(k, e.K)
		if st.branch(c) {
			return i
		}
	}
	return -1
}

func (st *State) mapSet(m *MapObj, k, v Value) {
	st.mapRace(m, true)
	if i := st.mapFind(m, k); i >= 0 {
		m.Entries[i] = mapEntry{K: m.Entries[i].K, V: copyValue(v)}
		return
	}
	m.Entries = append(m.Entries, mapEntry{K: copyValue(k), V: copyValue(v)})
}

func (st *State) mapDelete(m *MapObj, k Value) {
	if m == nil {
		return
	}
	st.mapRace(m, true)
	if i := st.mapFind(m, k); i >= 0 {
		m.Entries = append(append([]mapEntry{}, m.Entries[:i]...), m.Entries[i+1:]...)
	}
}

func (st *State) mapOrder(m *MapObj) []mapEntry {
	es := append([]mapEntry{}, m.Entries...)
	if !st.eng.cfg.MapOrderFork || len(es) < 2 {
		return es
	}
	// nondeterministic order: choose a permutation (Lehmer code decisions)
	out := make([]mapEntry, 0, len(es))
	rest := es
	for len(rest) > 1 {
		alts := make([]int64, len(rest))
		for i := range alts {
			alts[i] = int64(i)
		}
		k := int(st.decide("maporder", alts))
		out = append(out, rest[k])
		rest = append(append([]mapEntry{}, rest[:k]...), rest[k+1:]...)
	}
	return append(out, rest...)
}

func (st *State) execLookup(fr *Frame, x *ssa.Lookup) {
	tt := st.tt
	xv := st.eval(fr, x.X)
	switch s := xv.(type) {
	case StrV:
		idx := st.toInt64(st.eval(fr, x.Index).(*Term), x.Index.Type())
		st.check(tt.Cmp(OpULt, idx, s.Len), "string index out of range")
		arr := st.strArr(s)
		st.setLocal(fr, x, st.symRead(arr, tt.Bin(OpAdd, s.Off, idx)))
	case MapV:
		k := st.eval(fr, x.Index)
		var v Value
		found := false
		st.mapRace(s.M, false)
		if s.M != nil {
			if i := st.mapFind(s.M, k); i >= 0 {
				v = copyValue(s.M.Entries[i].V)
				found = true
			}
		}
		if !found {
			v = st.zero(x.X.Type().Underlying().(*types.Map).Elem())
		}
		if x.CommaOk {
			st.setLocal(fr, x, TupleV{v, tt.Bool(found)})
		} else {
			st.setLocal(fr, x, v)
		}
	default:
		panic(unsupported(fmt.Sprintf("Lookup on %T", xv)))
	}
}

func (st *State) execNext(fr *Frame, x *ssa.Next) {
	tt := st.tt
	it := st.eval(fr, x.Iter).(*MapIter)
	if x.IsString {
		s := *it.Str
		pos := tt.Const(uint64(it.SPos), 64)
		if !st.branch(tt.Cmp(OpULt, pos, s.Len)) {
			st.setLocal(fr, x, TupleV{tt.False, tt.Const(0, 64), tt.Const(0, 32)})
			return
		}
		b := st.symRead(st.strArr(s), tt.Bin(OpAdd, s.Off, pos)).(*Term)
		if !st.branch(tt.Cmp(OpULt, b, tt.Const(0x80, 8))) {
			panic(unsupported("non-ASCII byte in range over string (ASCII-only model)"))
		}
		it.SPos++
		st.setLocal(fr, x, TupleV{tt.True, pos, tt.ZExt(b, 32)})
		return
	}
	tup := x.Type().(*types.Tuple)
	for it.M != nil && it.Pos < len(it.Order) {
		e := it.Order[it.Pos]
		it.Pos++
		// skip entries deleted since the iteration began
		live := false
		for _, c := range it.M.Entries {
			if sameCell(c.K, e.K) {
				live = true
				e = c
				break
			}
		}
		if !live {
			continue
		}
		st.setLocal(fr, x, TupleV{tt.True, copyValue(e.K), copyValue(e.V)})
		return
	}
	kz, vz := Value(nil), Value(nil)
	if tup.At(1).Type() != nil {
		if _, ok := tup.At(1).Type().(*types.Basic); !(ok && tup.At(1).Type().(*types.Basic).Kind() == types.Invalid) {
			kz = st.zero(tup.At(1).Type())
		}
	}
	if _, ok := tup.At(2).Type().(*types.Basic); !(ok && tup.At(2).Type().(*types.Basic).Kind() == types.Invalid) {
		vz = st.zero(tup.At(2).Type())
	}
	st.setLocal(fr, x, TupleV{tt.False, kz, vz})
}

// sameCell: identity of map keys as stored (keys are immutable values; compare structurally on terms).
func sameCell(a, b Value) bool {
	switch x := a.(type) {
	case *Term:
		y, ok := b.(*Term)
		return ok && x == y
	case StrV:
		y, ok := b.(StrV)
		return ok && x.Arr.key() == y.Arr.key() && x.Off == y.Off && x.Len == y.Len
	case Ptr:
		y, ok := b.(Ptr)
		return ok && x.key() == y.key()
	case *StructV:
		y, ok := b.(*StructV)
		if !ok || len(x.F) != len(y.F) {
			return false
		}
		for i := range x.F {
			if !sameCell(x.F[i], y.F[i]) {
				return false
			}
		}
		return true
	case *ArrayV:
		y, ok := b.(*ArrayV)
		if !ok || len(x.E) != len(y.E) {
			return false
		}
		for i := range x.E {
			if !sameCell(x.get(i), y.get(i)) {
				return false
			}
		}
		return true
	case IfaceV:
		y, ok := b.(IfaceV)
		if !ok {
			return false
		}
		if x.T == nil || y.T == nil {
			return x.T == nil && y.T == nil
		}
		return types.Identical(x.T, y.T) && sameCell(x.V, y.V)
	}
	return false
}

// ---------- interfaces ----------

func (st *State) implements(dyn types.Type, iface *types.Interface) bool {
	if dyn == st.eng.opaqueErrT {
		// opaque errors implement error and Unwrap() error only
		for i := 0; i < iface.NumMethods(); i++ {
			n := iface.Method(i).Name()
			if n != "Error" && n != "Unwrap" && n != "Timeout" && n != "Temporary" {
				return false
			}
		}
		return true
	}
	return types.Implements(dyn, iface)
}

func (st *State) execTypeAssert(th *Thread, fr *Frame, x *ssa.TypeAssert) stepStatus {
	v := st.eval(fr, x.X).(IfaceV)
	ok := false
	var res Value
	if it, isI := x.AssertedType.Underlying().(*types.Interface); isI {
		if v.T != nil && st.implements(v.T, it) {
			ok = true
			res = v
		} else {
			res = IfaceV{}
		}
	} else {
		if v.T != nil && types.Identical(v.T, x.AssertedType) {
			ok = true
			res = v.V
		} else {
			res = st.zero(x.AssertedType)
		}
	}
	if x.CommaOk {
		st.setLocal(fr, x, TupleV{res, st.tt.Bool(ok)})
		return stNext
	}
	if !ok {
		dt := "nil"
		if v.T != nil {
			dt = v.T.String()
		}
		return st.runtimePanic(th, fmt.Sprintf("interface conversion: %s is not %s", dt, x.AssertedType))
	}
	st.setLocal(fr, x, res)
	return stNext
}

// ---------- calls ----------

// resolveCall evaluates the callee and its arguments (receiver first for invokes).
func (st *State) resolveCall(fr *Frame, c *ssa.CallCommon) (FuncV, []Value) {
	var args []Value
	if c.IsInvoke() {
		recv := st.eval(fr, c.Value).(IfaceV)
		if recv.T == nil {
			// metrics/logging interfaces are no-ops (their constructors are stubbed to return nil)
			if pk := c.Method.Pkg(); pk != nil {
				for _, p := range noopPkgPrefixes {
					if pk.Path() == p || strings.HasPrefix(pk.Path(), strings.TrimSuffix(p, "/")+"/") || strings.HasPrefix(pk.Path(), p) {
						return FuncV{Native: "noop", Data: c.Signature().Results()}, nil
					}
				}
			}
			panic(st.violation("nil interface method call "+c.Method.Name(), nil))
		}
		for _, a := range c.Args {
			args = append(args, st.eval(fr, a))
		}
		if recv.T == st.eng.opaqueErrT || st.eng.isEngineType(recv.T) {
			return FuncV{Native: "invoke:" + c.Method.Name(), Data: recv}, args
		}
		fn := st.eng.prog.LookupMethod(recv.T, c.Method.Pkg(), c.Method.Name())
		if fn == nil {
			panic(unsupported(fmt.Sprintf("no method %s on %s", c.Method.Name(), recv.T)))
		}
		return st.eng.redirect(FuncV{Fn: fn}), append([]Value{recv.V}, args...)
	}
	for _, a := range c.Args {
		args = append(args, st.eval(fr, a))
	}
	fv := st.eval(fr, c.Value).(FuncV)
	return st.eng.redirect(fv), args
}

func (st *State) execCall(th *Thread, fr *Frame, x ssa.Value, c *ssa.CallCommon, instr ssa.Instruction) stepStatus {
	f, args := st.resolveCall(fr, c)
	if f.Builtin != nil {
		r := st.callBuiltin(th, fr, f.Builtin, args, c)
		st.setLocal(fr, x, r)
		return stNext
	}
	if f.Native != "" {
		r, status := st.callNative(th, fr, f, args)
		if status != stNext {
			return status
		}
		st.setLocal(fr, x, r)
		return stNext
	}
	if f.Fn == nil {
		return st.runtimePanic(th, "call of nil function")
	}
	if st.initMode && strings.HasPrefix(f.Fn.Name(), "init") && f.Fn.Pkg != fr.fn.Pkg {
		return stNext // package initialisers of other packages are not run
	}
	if len(st.initStack) > 0 && fr.fn.Name() == "init" && fr.fn.Synthetic != "" &&
		((f.Fn.Name() == "init" && f.Fn.Synthetic != "") || strings.HasPrefix(f.Fn.Name(), "init#")) {
		return stNext // lazily run variable initialisers: neither other packages' initialisers nor init() functions
	}
	if r, status, handled := st.intrinsic(th, fr, f, args, c); handled {
		if status == stNext {
			st.setLocal(fr, x, r)
		}
		return status
	}
	fr.ip++ // return continues after the call
	st.pushCall(th, f, args, x, nil)
	return stJump
}

func (st *State) callBuiltin(th *Thread, fr *Frame, b *ssa.Builtin, args []Value, c *ssa.CallCommon) Value {
	tt := st.tt
	switch b.Name() {
	case "len":
		switch v := args[0].(type) {
		case StrV:
			return v.Len
		case SliceV:
			return v.Len
		case MapV:
			if v.M == nil {
				return tt.Const(0, 64)
			}
			st.mapRace(v.M, false)
			return tt.Const(uint64(len(v.M.Entries)), 64)
		case ChanV:
			if v.C == nil {
				return tt.Const(0, 64)
			}
			return tt.Const(uint64(len(v.C.buf)), 64)
		case Ptr:
			return tt.Const(uint64(len(st.arrayAt(v).E)), 64)
		case *ArrayV:
			return tt.Const(uint64(len(v.E)), 64)
		}
	case "cap":
		switch v := args[0].(type) {
		case SliceV:
			return v.Cap
		case ChanV:
			if v.C == nil {
				return tt.Const(0, 64)
			}
			return tt.Const(uint64(v.C.cap), 64)
		case Ptr:
			return tt.Const(uint64(len(st.arrayAt(v).E)), 64)
		case *ArrayV:
			return tt.Const(uint64(len(v.E)), 64)
		}
	case "append":
		s := args[0].(SliceV)
		et := c.Args[0].Type().Underlying().(*types.Slice).Elem()
		return st.builtinAppend(s, args[1], et)
	case "copy":
		return st.builtinCopy(args[0].(SliceV), args[1])
	case "delete":
		st.mapDelete(args[0].(MapV).M, args[1])
		return nil
	case "close":
		st.chanClose(th, args[0].(ChanV))
		return nil
	case "recover":
		// valid when the frame below is unwinding
		if th.panicking && len(th.stack) >= 2 && th.stack[len(th.stack)-2].unwinding && st.top(th).isDefer {
			th.panicking = false
			v := th.panicVal
			th.panicVal = nil
			return v
		}
		return IfaceV{}
	case "print", "println":
		return nil
	case "min", "max":
		r := args[0]
		for _, a := range args[1:] {
			x, y := r.(*Term), a.(*Term)
			_, signed, _ := st.intWidth(c.Args[0].Type())
			var lt *Term
			if signed {
				lt = tt.Cmp(OpSLt, y, x)
			} else {
				lt = tt.Cmp(OpULt, y, x)
			}
			if b.Name() == "max" {
				lt = tt.Not(tt.Or(lt, tt.Eq(x, y)))
			}
			r = tt.Ite(lt, y, x)
		}
		return r
	case "clear":
		switch v := args[0].(type) {
		case MapV:
			if v.M != nil {
				v.M.Entries = nil
			}
			return nil
		case SliceV:
			if v.Arr.Obj == nil {
				return nil
			}
			if !v.Len.IsConst() || !v.Off.IsConst() {
				panic(unsupported("clear of a slice with symbolic bounds"))
			}
			arr := st.arrayAt(v.Arr)
			et := c.Args[0].Type().Underlying().(*types.Slice).Elem()
			for i := 0; i < int(v.Len.Val); i++ {
				arr.E[int(v.Off.Val)+i] = st.zero(et)
			}
			return nil
		}
	case "ssa:wrapnilchk":
		if p, ok := args[0].(Ptr); ok && p.Obj == nil {
			panic(st.violation("value method called on nil pointer", nil))
		}
		return args[0]
	case "String": // unsafe.String(ptr, len)
		p := args[0].(Ptr)
		ln := st.toInt64(args[1].(*Term), c.Args[1].Type())
		if p.Obj == nil {
			return StrV{Off: tt.Const(0, 64), Len: tt.Const(0, 64)}
		}
		arr, off := st.elemPtrToArray(p)
		return StrV{Arr: arr, Off: off, Len: ln}
	case "SliceData":
		s := args[0].(SliceV)
		if s.Arr.Obj == nil {
			return Ptr{}
		}
		if s.Off.IsConst() {
			return s.Arr.sub(int(s.Off.Val))
		}
		return Ptr{Obj: s.Arr.Obj, Path: s.Arr.Path, SymIdx: s.Off}
	case "StringData":
		s := args[0].(StrV)
		if s.Arr.Obj == nil {
			return Ptr{}
		}
		if s.Off.IsConst() {
			return s.Arr.sub(int(s.Off.Val))
		}
		return Ptr{Obj: s.Arr.Obj, Path: s.Arr.Path, SymIdx: s.Off}
	case "Slice": // unsafe.Slice(ptr, len)
		p := args[0].(Ptr)
		ln := st.toInt64(args[1].(*Term), c.Args[1].Type())
		if p.Obj == nil {
			z := tt.Const(0, 64)
			return SliceV{Off: z, Len: z, Cap: z}
		}
		arr, off := st.elemPtrToArray(p)
		return SliceV{Arr: arr, Off: off, Len: ln, Cap: ln}
	}
	panic(unsupported(fmt.Sprintf("builtin %s on %T", b.Name(), args)))
}

// elemPtrToArray converts a pointer to an array element into (array pointer, offset).
func (st *State) elemPtrToArray(p Ptr) (Ptr, *Term) {
	if p.SymIdx != nil {
		return Ptr{Obj: p.Obj, Path: p.Path}, p.SymIdx
	}
	if len(p.Path) == 0 {
		panic(unsupported("unsafe.String/Slice on a non-element pointer"))
	}
	return Ptr{Obj: p.Obj, Path: p.Path[:len(p.Path)-1]}, st.tt.Const(uint64(p.Path[len(p.Path)-1]), 64)
}

func fnKey(fn *ssa.Function) string {
	if o := fn.Origin(); o != nil {
		fn = o
	}
	s := fn.String()
	// strip type-parameter lists from generic receivers: (*sync/atomic.Pointer[T]).Load
	if i := strings.Index(s, "["); i >= 0 {
		if j := strings.LastIndex(s, "]"); j > i {
			s = s[:i] + s[j+1:]
		}
	}
	return s
}


// concretize enumerates the feasible values of t (bounded) and forks over them.
func (st *State) concretize(t *Term, what string) uint64 {
	if t.IsConst() {
		return t.Val
	}
	if st.inPrefix() {
		return uint64(st.decide("conc", nil2))
	}
	var alts []int64
	excl := st.tt.True
	for len(alts) < 300 {
		r, m := st.w.solver.Check(st.pc, excl, true, "feas")
		if r == Unsat {
			break
		}
		if r == Unknown || m == nil {
			panic(pathAbort{kind: "UNWIND", msg: "cannot enumerate values of symbolic " + what})
		}
		v := m.Eval(t)
		alts = append(alts, int64(v))
		excl = st.tt.And(excl, st.tt.Not(st.tt.Eq(t, st.tt.Const(v, t.W))))
	}
	if len(alts) >= 300 {
		panic(pathAbort{kind: "UNWIND", msg: "more than 300 feasible values for symbolic " + what + " at " + st.curSite()})
	}
	v := uint64(st.decide("conc", alts))
	return v
}

func (st *State) concretizePtr(p Ptr) Ptr {
	v := st.concretize(p.SymIdx, "array index")
	st.assume(st.tt.Eq(p.SymIdx, st.tt.Const(v, p.SymIdx.W)))
	return Ptr{Obj: p.Obj, Path: p.Path}.sub(int(v))
}
