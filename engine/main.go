package main

import (
	"sync/atomic"
	"encoding/json"
	"flag"
	"fmt"
	"os"
	"os/exec"
	"path/filepath"
	"runtime"
	"runtime/debug"
	"sort"
	"strconv"
	"strings"
	"time"

	"golang.org/x/tools/go/ssa"
)

var repoRoot = func() string {
	if r := os.Getenv("GOSYM_REPO"); r != "" {
		return strings.TrimSuffix(r, "/")
	}
	return "/repo"
}()

var verifRoot = func() string {
	if r := os.Getenv("GOSYM_ROOT"); r != "" {
		return r
	}
	return "/verif"
}()

func usage() {
	fmt.Fprintln(os.Stderr, "usage: gosym check <Cxx> [--tier quick|thorough] [--only harness] | gosym replay <dir> | gosym selftest")
	os.Exit(2)
}

func main() {
	debug.SetGCPercent(400)
	if len(os.Args) < 2 {
		usage()
	}
	switch os.Args[1] {
	case "check":
		os.Exit(cmdCheck(os.Args[2:]))
	case "replay":
		os.Exit(cmdReplay(os.Args[2:]))
	case "selftest":
		os.Exit(cmdSelftest(os.Args[2:]))
	}
	usage()
}

func loadSpec(id string) (*PropSpec, error) {
	b, err := os.ReadFile(filepath.Join(verifRoot, "harness", id, "spec.json"))
	if err != nil {
		return nil, err
	}
	var ps PropSpec
	if err := json.Unmarshal(b, &ps); err != nil {
		return nil, fmt.Errorf("spec.json: %v", err)
	}
	return &ps, nil
}

type harnessResult struct {
	Name         string
	Paths        int64
	Cut          int64
	States       int64
	Transitions  int64
	Obligations  int64
	Discharged   int64
	Violations   []*Violation
	Covers       map[string]*CoverHit
	MissingCover []string
	Inconclusive []string
	NInconcl     int
	RepoFuncs    []string
	DepFuncs     int
	Files        map[string]string
	Stubs        []string
	Assumptions  []string
	Samples      []interface{}
	WallS        float64
	Bounds       Bounds
	Replayed     int
	AssertSites  []string
}

func defaults(b Bounds) Bounds {
	if b.MaxUnwind == 0 {
		b.MaxUnwind = 64
	}
	if b.MaxDepth == 0 {
		b.MaxDepth = 200
	}
	if b.MaxSteps == 0 {
		b.MaxSteps = 2000000
	}
	if b.MaxAlloc == 0 {
		b.MaxAlloc = 1024
	}
	if b.TimeoutS == 0 {
		b.TimeoutS = 60
	}
	if b.MaxTimerFires == 0 {
		b.MaxTimerFires = 2
	}
	return b
}

// a guard that ends the run early must not turn an already reported violation into "inconclusive"
var violationReported atomic.Bool

func guardExit() int {
	if violationReported.Load() {
		return 1
	}
	return 3
}

func runHarness(spec *HarnessSpec, tier string, budget time.Duration) (*harnessResult, error) {
	t0 := time.Now()
	prog, pkgs, mainPkg, err := loadProgram(spec, verifRoot)
	if err != nil {
		return nil, err
	}
	b := spec.Quick
	if tier == "thorough" {
		b = spec.Thorough
		if b.MaxUnwind == 0 && b.MaxSteps == 0 && b.Params == nil {
			b = spec.Quick
		}
	}
	b = defaults(b)
	e := &Engine{prog: prog, pkgs: pkgs, spec: spec, tier: tier,
		funcs: map[string]string{}, stubs: map[string]bool{}, assumptions: map[string]bool{},
		assertSites: map[string]bool{}, coverSites: map[string]bool{}, covers: map[string]*CoverHit{}}
	e.cfg = Config{Bounds: b, AtomicPkgs: map[string]bool{}}
	for _, p := range spec.AtomicPkgs {
		e.cfg.AtomicPkgs[p] = true
	}
	e.opaqueErrT = makeOpaqueErrType()
	e.globalInit = globalInit
	if len(spec.Redirects) > 0 {
		e.redirects = map[string]*ssa.Function{}
		for from, to := range spec.Redirects {
			fn := mainPkg.Func(to)
			if fn == nil {
				return nil, fmt.Errorf("redirect target %s not found in %s", to, mainPkg.Pkg.Path())
			}
			e.redirects[from] = fn
		}
	}
	entry := mainPkg.Func("vrtHarness_" + spec.Name)
	if entry == nil {
		return nil, fmt.Errorf("harness function vrtHarness_%s not found in %s", spec.Name, mainPkg.Pkg.Path())
	}
	nw := runtime.NumCPU()
	if s := os.Getenv("GOSYM_WORKERS"); s != "" {
		nw, _ = strconv.Atoi(s)
	}
	// watchdog: a single symbolic step that never returns (e.g. an element-wise operation on a huge
	// symbolic buffer) must not hang the check: give up as inconclusive
	// memory guard: a symbolic step that materialises a huge structure must not take the machine down
	memStop := make(chan struct{})
	go func() {
		tick := time.NewTicker(2 * time.Second)
		defer tick.Stop()
		for {
			select {
			case <-memStop:
				return
			case <-tick.C:
				var ms runtime.MemStats
				runtime.ReadMemStats(&ms)
				if ms.HeapAlloc > 28<<30 {
					fmt.Printf("   INCONCLUSIVE memory guard: %s needs more than 28 GiB of engine memory (a symbolic structure out of the engine's reach)\n", spec.Name)
					os.Exit(guardExit())
				}
			}
		}
	}()
	defer close(memStop)
	watchdog := time.AfterFunc(budget+5*time.Minute, func() {
		fmt.Printf("   INCONCLUSIVE watchdog: %s still running %v after its budget ended (a symbolic step does not terminate)\n", spec.Name, 5*time.Minute)
		os.Exit(guardExit())
	})
	e.explore(entry, nw, t0.Add(budget))
	watchdog.Stop()
	r := &harnessResult{Name: spec.Name, Paths: e.paths, Cut: e.cutPaths, States: e.states, Transitions: e.transitions,
		Obligations: e.obligations, Discharged: e.discharged, Violations: e.violations, Covers: e.covers,
		Inconclusive: e.inconclusive, NInconcl: e.nInconclusive, Stubs: sortedKeys(e.stubs), Assumptions: sortedKeys(e.assumptions),
		Samples: e.samples, Bounds: b, AssertSites: sortedKeys(e.assertSites)}
	r.RepoFuncs, r.DepFuncs, r.Files = e.encodedFunctions()
	for _, c := range spec.Covers {
		if e.covers[c] == nil {
			r.MissingCover = append(r.MissingCover, c)
		}
	}
	for c := range e.coverSites {
		if e.covers[c] == nil {
			found := false
			for _, m := range r.MissingCover {
				if m == c {
					found = true
				}
			}
			if !found {
				r.MissingCover = append(r.MissingCover, c)
			}
		}
	}
	sort.Strings(r.MissingCover)
	r.WallS = time.Since(t0).Seconds()
	return r, nil
}

type knownFinding struct {
	Property string `json:"property"`
	Harness  string `json:"harness"`
	Label    string `json:"label"`
	Site     string `json:"site_contains"`
	Text     string `json:"text"`
	Status   string `json:"status"` // "known" | "fixed"
	Commit   string `json:"commit"`
}

func loadKnown() []knownFinding {
	b, err := os.ReadFile(filepath.Join(verifRoot, "known_findings.json"))
	if err != nil {
		return nil
	}
	var f struct {
		Findings []knownFinding `json:"findings"`
	}
	json.Unmarshal(b, &f)
	return f.Findings
}

func cmdCheck(args []string) int {
	fs := flag.NewFlagSet("check", flag.ExitOnError)
	tier := fs.String("tier", os.Getenv("VERIF_TIER"), "quick|thorough")
	only := fs.String("only", "", "run only this harness")
	budgetS := fs.Int("budget", 0, "wall-clock budget per harness in seconds")
	noReplay := fs.Bool("no-replay", false, "skip native replays")
	if len(args) < 1 {
		usage()
	}
	id := args[0]
	fs.Parse(args[1:])
	if *tier == "" {
		*tier = "quick"
	}
	seed := 0
	if s := os.Getenv("VERIF_SEED"); s != "" {
		seed, _ = strconv.Atoi(s)
	}
	t0 := time.Now()
	ps, err := loadSpec(id)
	if err != nil {
		fmt.Fprintln(os.Stderr, "error:", err)
		return 3
	}
	outDir := filepath.Join(verifRoot, "out", id)
	os.RemoveAll(outDir)
	os.MkdirAll(outDir, 0755)
	budget := 8 * time.Minute
	if *tier == "thorough" {
		budget = 15 * time.Minute
	}
	if *budgetS > 0 {
		budget = time.Duration(*budgetS) * time.Second
	}
	known := loadKnown()
	exit := 0
	var results []*harnessResult
	nViol := 0
	replayed := 0
	for i := range ps.Harnesses {
		spec := &ps.Harnesses[i]
		if *only != "" && spec.Name != *only {
			continue
		}
		fmt.Printf("== %s/%s (%s)\n", id, spec.Name, *tier)
		r, err := runHarness(spec, *tier, budget)
		if err != nil {
			fmt.Printf("ERROR %s: %v\n", spec.Name, err)
			exit = max(exit, 3)
			continue
		}
		results = append(results, r)
		fmt.Printf("   paths=%d cut=%d obligations=%d/%d covers=%d/%d inconclusive=%d violations=%d wall=%.1fs\n",
			r.Paths, r.Cut, r.Discharged, r.Obligations, len(r.Covers), len(r.Covers)+len(r.MissingCover), r.NInconcl, len(r.Violations), r.WallS)
		for _, m := range r.Inconclusive {
			fmt.Printf("   INCONCLUSIVE %s\n", m)
		}
		if r.NInconcl > 0 {
			exit = max(exit, 3)
		}
		for _, c := range r.MissingCover {
			fmt.Printf("   VACUOUS cover point not reached: %s\n", c)
			exit = max(exit, 3)
		}
		// witness replays (translator validation against the compiled code)
		if !*noReplay && spec.Replay != "none" {
			labels := make([]string, 0, len(r.Covers))
			for l := range r.Covers {
				labels = append(labels, l)
			}
			sort.Strings(labels)
			if *tier == "quick" && len(labels) > 3 {
				labels = labels[:3]
			}
			for k, l := range labels {
				h := r.Covers[l]
				dir := filepath.Join(outDir, fmt.Sprintf("%s-witness-%d", spec.Name, k))
				wspec := *spec
				wspec.ReplayRepeat = 0
				res := nativeReplay(&wspec, dir, h.Values, h.Choices, r.Bounds.Params)
				replayed++
				timing := spec.ReplayRepeat > 0 || r.Bounds.Threads
				if !res.Ran {
					fmt.Printf("   WITNESS-REPLAY-ERROR %s: %s\n", l, res.Err)
					exit = max(exit, 3)
				} else if (!res.Covers[l] && !timing) || unexpectedFailures(res.Failed, r.Violations) || res.AssumeFailed {
					if timing {
						// the native run of a multi-threaded harness depends on the Go scheduler and on real-time
						// deadlines of the harness: not reproducing a witness is reported, not treated as a mismatch
						fmt.Printf("   WITNESS-NOT-REPRODUCED (schedule/timing dependent harness) cover %q: covers=%v failed=%v dir=%s\n", l, res.Covers, res.Failed, dir)
					} else {
						fmt.Printf("   ENGINE-MISMATCH witness for cover %q does not reproduce natively (covers=%v failed=%v assumeFailed=%v) dir=%s\n", l, res.Covers, res.Failed, res.AssumeFailed, dir)
						exit = max(exit, 3)
					}
				} else {
					r.Replayed++
				}
			}
		}
		// group candidate counterexamples by (label, site); replay candidates until one reproduces
		type group struct{ cands []*Violation }
		var order []string
		groups := map[string]*group{}
		for _, v := range r.Violations {
			k := v.Label + "\x00" + v.Site
			if groups[k] == nil {
				groups[k] = &group{}
				order = append(order, k)
			}
			groups[k].cands = append(groups[k].cands, v)
		}
		nGroups := 0
		for _, gk := range order {
			g := groups[gk]
			k := nGroups
			nGroups++
			dir := filepath.Join(outDir, fmt.Sprintf("%s-cex-%d", spec.Name, k))
			confirmed := false
			detail := ""
			v := g.cands[0]
			if *noReplay || spec.Replay == "none" {
				detail = "(native replay disabled)"
			} else {
				for ci, cand := range g.cands {
					cdir := dir
					if ci > 0 {
						cdir = fmt.Sprintf("%s-alt%d", dir, ci)
					}
					res := nativeReplay(spec, cdir, cand.Values, cand.Choices, r.Bounds.Params, cand.Label)
					replayed++
					if res.Ran && !res.AssumeFailed {
						for _, f := range res.Failed {
							if f == cand.Label || strings.HasPrefix(cand.Label, "implicit:") && strings.HasPrefix(f, "panic:") {
								confirmed = true
							}
							// a caller blocked forever shows natively as its (real-time) deadline failing an assertion
							if strings.HasPrefix(cand.Label, "implicit: deadlock") {
								confirmed = true
							}
							if strings.HasPrefix(cand.Label, "implicit: data race") && strings.HasPrefix(f, "race:") {
								confirmed = true
							}
							// the use of a released pool buffer is not observable natively as such; an assertion of the
							// same harness failing natively on the same inputs is its visible consequence
							if strings.HasPrefix(cand.Label, "implicit: access to released object") {
								confirmed = true
							}
						}
					}
					detail = fmt.Sprintf("native: ran=%v failed=%v assumeFailed=%v err=%s (%d candidate(s) tried)", res.Ran, res.Failed, res.AssumeFailed, res.Err, ci+1)
					writeCexInfo(cdir, id, spec, cand)
					if confirmed {
						v, dir = cand, cdir
						break
					}
				}
			}
			if !confirmed {
				writeCexInfo(dir, id, spec, v)
				fmt.Printf("   UNCONFIRMED-CEX property=%s harness=%s label=%q site=%s %s dir=%s\n", id, spec.Name, v.Label, v.Site, detail, dir)
				exit = max(exit, 3)
				continue
			}
			r.Replayed++
			isKnown := false
			for _, kf := range known {
				if kf.Status == "known" && kf.Property == id && kf.Harness == spec.Name && kf.Label == v.Label && (kf.Site == "" || strings.Contains(v.Site, kf.Site)) {
					fmt.Printf("KNOWN-FINDING: property=%s %s\n", id, kf.Text)
					v.Known = kf.Text
					isKnown = true
				}
			}
			if !isKnown {
				nViol++
				fmt.Printf("   violated: %q at %s\n", v.Label, v.Site)
				fmt.Printf("VIOLATION property=%s replay=%s\n", id, dir)
				violationReported.Store(true)
				exit = max(exit, 1)
				if exit == 3 {
					exit = 1
				}
			}
		}
	}
	if nViol > 0 {
		exit = 1
	}
	writeEvidence(id, *tier, seed, ps, results, nViol, time.Since(t0).Seconds())
	fmt.Printf("== %s: exit %d (%.1fs, %d native replays)\n", id, exit, time.Since(t0).Seconds(), replayed)
	return exit
}

// unexpectedFailures: a witness may legitimately fail an assertion the engine also found violated.
func unexpectedFailures(failed []string, vs []*Violation) bool {
	for _, f := range failed {
		ok := false
		for _, v := range vs {
			if v.Label == f || strings.HasPrefix(v.Label, "implicit:") && strings.HasPrefix(f, "panic:") || strings.HasPrefix(v.Label, "implicit: deadlock") || strings.HasPrefix(v.Label, "implicit: data race") && strings.HasPrefix(f, "race:") || strings.HasPrefix(v.Label, "implicit: access to released object") {
				ok = true
			}
		}
		if !ok {
			return true
		}
	}
	return false
}

func writeCexInfo(dir, id string, spec *HarnessSpec, v *Violation) {
	os.MkdirAll(dir, 0755)
	info := map[string]interface{}{
		"property": id, "harness": spec.Name, "label": v.Label, "site": v.Site,
		"decisions": decisionString(v.Decisions), "values": v.Values, "choices": v.Choices, "trace": v.Trace, "schedule": v.Schedule, "symbols": v.Syms,
	}
	os.WriteFile(filepath.Join(dir, "cex.json"), mustJSON(info), 0644)
}

type replayResult struct {
	Ran          bool
	Failed       []string
	Covers       map[string]bool
	Observes     []string
	AssumeFailed bool
	Err          string
	Output       string
}

// nativeReplay compiles the harness with the Go compiler (overlay, tag verif)
// and runs it on the concrete values of a solver model.
func nativeReplay(spec *HarnessSpec, dir string, values []uint64, choices []int64, params map[string]int, target ...string) replayResult {
	os.MkdirAll(dir, 0755)
	tgt := ""
	if len(target) > 0 && !strings.HasPrefix(target[0], "implicit:") {
		tgt = target[0]
	}
	if len(target) > 0 && strings.HasPrefix(target[0], "implicit: deadlock") {
		tgt = "deadlock"
	}
	rp := map[string]interface{}{"target": tgt, "values": values, "choices": choices, "params": params, "harness": spec.Name, "pkg": spec.Pkg, "files": spec.Files, "repeat": spec.ReplayRepeat, "race": spec.NativeRace, "quiesce_ms": spec.NativeQuiesceMs}
	os.WriteFile(filepath.Join(dir, "replay.json"), mustJSON(rp), 0644)
	return runReplayDir(dir)
}

func runReplayDir(dir string) replayResult {
	res := replayResult{Covers: map[string]bool{}}
	b, err := os.ReadFile(filepath.Join(dir, "replay.json"))
	if err != nil {
		res.Err = err.Error()
		return res
	}
	var rp struct {
		Harness string   `json:"harness"`
		Pkg     string   `json:"pkg"`
		Files   []string `json:"files"`
		Repeat  int      `json:"repeat"`
		Race    bool     `json:"race"`
		QuiesceMs int    `json:"quiesce_ms"`
		Target    string `json:"target"`
	}
	json.Unmarshal(b, &rp)
	spec := &HarnessSpec{Name: rp.Harness, Pkg: rp.Pkg, Files: rp.Files}
	ov, err := buildOverlay(spec, verifRoot)
	if err != nil {
		res.Err = err.Error()
		return res
	}
	pkgName := string(pkgClauseRe.FindSubmatch(ov[filepath.Join(repoRoot, spec.Pkg, "zz_vrt_prims.go")])[1])
	test := fmt.Sprintf(`//go:build verif

package %s

import "testing"

func TestVrtReplay(t *testing.T) {
	failed := vrtRunNative(vrtHarness_%s)
	if len(failed) > 0 {
		t.Fatalf("property violated: %%v", failed)
	}
}
`, pkgName, spec.Name)
	repl := map[string]string{}
	for vp, src := range ov {
		real := filepath.Join(dir, filepath.Base(vp))
		os.WriteFile(real, src, 0644)
		repl[vp] = real
	}
	tp := filepath.Join(dir, "zz_vrt_replay_test.go")
	os.WriteFile(tp, []byte(test), 0644)
	repl[filepath.Join(repoRoot, spec.Pkg, "zz_vrt_replay_test.go")] = tp
	os.WriteFile(filepath.Join(dir, "overlay.json"), mustJSON(map[string]interface{}{"Replace": repl}), 0644)
	args := []string{"test", "-vet=off", "-count=1", "-tags", "verif", "-overlay", filepath.Join(dir, "overlay.json"),
		"-run", "^TestVrtReplay$", "-timeout", "120s", "-v"}
	if rp.Race {
		args = append(args, "-race")
	}
	cmd := exec.Command("go", append(args, "./"+spec.Pkg)...)
	cmd.Dir = repoRoot
	cmd.Env = append(os.Environ(), "GOFLAGS=-mod=mod", "GOPROXY=off", "GOSUMDB=off", "GOTOOLCHAIN=local", "VRT_REPLAY="+filepath.Join(dir, "replay.json"))
	if rp.Repeat > 0 {
		cmd.Env = append(cmd.Env, fmt.Sprintf("VRT_REPEAT=%d", rp.Repeat))
	}
	if rp.QuiesceMs > 0 {
		cmd.Env = append(cmd.Env, fmt.Sprintf("VRT_QUIESCE_MS=%d", rp.QuiesceMs))
	}
	if rp.Target != "" && (rp.Repeat > 1 || rp.Target == "deadlock") {
		cmd.Env = append(cmd.Env, "VRT_TARGET="+rp.Target)
	}
	out, _ := cmd.CombinedOutput()
	res.Output = string(out)
	os.WriteFile(filepath.Join(dir, "native_output.txt"), out, 0644)
	for _, line := range strings.Split(res.Output, "\n") {
		line = strings.TrimSpace(line)
		switch {
		case strings.HasPrefix(line, "VRT-ASSERT-FAIL "):
			res.Failed = append(res.Failed, strings.TrimPrefix(line, "VRT-ASSERT-FAIL "))
		case strings.HasPrefix(line, "VRT-PANIC "):
			res.Failed = append(res.Failed, "panic: "+strings.TrimPrefix(line, "VRT-PANIC "))
			res.Ran = true
		case strings.HasPrefix(line, "VRT-COVER "):
			res.Covers[strings.TrimPrefix(line, "VRT-COVER ")] = true
		case strings.HasPrefix(line, "VRT-OBSERVE "):
			res.Observes = append(res.Observes, strings.TrimPrefix(line, "VRT-OBSERVE "))
		case line == "VRT-ASSUME-FAILED":
			res.AssumeFailed = true
			res.Ran = true
		case strings.HasPrefix(line, "VRT-HANG "):
			res.Failed = append(res.Failed, "hang: "+strings.TrimPrefix(line, "VRT-HANG "))
			res.Ran = true
		case line == "VRT-DONE":
			res.Ran = true
		case strings.HasPrefix(line, "WARNING: DATA RACE"):
			res.Failed = append(res.Failed, "race: data race reported by go test -race")
			res.Ran = true
		case strings.HasPrefix(line, "panic:") || strings.HasPrefix(line, "fatal error:"):
			res.Failed = append(res.Failed, "panic: "+line)
			res.Ran = true
		}
	}
	if !res.Ran {
		res.Err = "native run produced no VRT-DONE (build failure?): " + lastLines(res.Output, 6)
	}
	return res
}

func lastLines(s string, n int) string {
	ls := strings.Split(strings.TrimSpace(s), "\n")
	if len(ls) > n {
		ls = ls[len(ls)-n:]
	}
	return strings.Join(ls, " | ")
}

func cmdReplay(args []string) int {
	if len(args) < 1 {
		usage()
	}
	res := runReplayDir(args[0])
	fmt.Print(res.Output)
	if !res.Ran {
		fmt.Println("replay error:", res.Err)
		return 3
	}
	if len(res.Failed) > 0 {
		fmt.Printf("REPRODUCED: %v\n", res.Failed)
		return 1
	}
	fmt.Println("not reproduced")
	return 0
}

func writeEvidence(id, tier string, seed int, ps *PropSpec, rs []*harnessResult, nViol int, wall float64) {
	var states, transitions, obligations, discharged, paths int64
	replayed := 0
	var samples []interface{}
	var harnesses []interface{}
	assume := map[string]bool{}
	for _, a := range ps.Assumptions {
		assume[a] = true
	}
	var inconcl []string
	for _, r := range rs {
		states += r.States
		transitions += r.Transitions
		obligations += r.Obligations
		discharged += r.Discharged
		paths += r.Paths
		replayed += r.Replayed
		for _, s := range r.Samples {
			if len(samples) < 8 {
				samples = append(samples, map[string]interface{}{"harness": r.Name, "path": s})
			}
		}
		for _, a := range r.Assumptions {
			assume[a] = true
		}
		var covers []string
		for c, h := range r.Covers {
			covers = append(covers, c)
			if len(samples) < 12 {
				samples = append(samples, map[string]interface{}{"harness": r.Name, "cover_witness": c, "decisions": decisionString(h.Decisions), "values": truncVals(h.Values), "observed": h.Observes})
			}
		}
		sort.Strings(covers)
		var viol []interface{}
		for _, v := range r.Violations {
			viol = append(viol, map[string]interface{}{"label": v.Label, "site": v.Site, "known": v.Known})
		}
		inconcl = append(inconcl, r.Inconclusive...)
		harnesses = append(harnesses, map[string]interface{}{
			"name": r.Name, "paths": r.Paths, "paths_assumed_away_or_infeasible": r.Cut, "decision_points": r.States, "ssa_instructions_executed": r.Transitions,
			"obligations": r.Obligations, "discharged": r.Discharged, "cover_points_reached": covers, "cover_points_missing": r.MissingCover,
			"assert_sites": r.AssertSites, "violations": viol, "bounds": r.Bounds, "functions_encoded_repo": r.RepoFuncs, "functions_encoded_deps": r.DepFuncs,
			"source_sha256": r.Files, "stubs_hit": r.Stubs, "wall_s": r.WallS, "inconclusive": r.Inconclusive, "native_replays_ok": r.Replayed,
		})
	}
	if len(samples) == 0 {
		samples = append(samples, "no path completed")
	}
	if states == 0 {
		states = 1
	}
	if transitions == 0 {
		transitions = 1
	}
	gStatsMu.Lock()
	backends := map[string]int64{}
	for k, v := range gBackends {
		backends[k] = v
	}
	gStatsMu.Unlock()
	ev := map[string]interface{}{
		"property_id": id, "tier": tier, "seed": seed, "level": "model_checking",
		"coverage": map[string]interface{}{
			"states": states, "transitions": transitions, "traces_validated_against_impl": replayed, "samples": samples,
			"obligations": obligations, "discharged": discharged, "paths": paths,
			"explanation": "bounded symbolic execution of the real functions from go/ssa; states = decision points visited (symbolic branches, choices, scheduler picks), transitions = SSA instructions executed symbolically, obligations = assertion/implicit-check queries sent to the SMT solver; every path inside the stated bounds is explored and every obligation decided by the solver",
			"harnesses":   harnesses,
			"solver": map[string]interface{}{"queries": gStats.Queries, "sat": gStats.Sat, "unsat": gStats.UnsatN, "unknown": gStats.UnknownN,
				"cross_checked": gStats.CrossChecked, "fallbacks": gStats.Fallbacks, "time_s": float64(gStats.TimeNs) / 1e9, "backends": backends, "restarts": gStats.Restarts},
			"inconclusive": inconcl,
			"exhaustive":   len(inconcl) == 0,
		},
		"assumptions": sortedKeys(assume),
		"wall_s":      wall,
		"violations":  nViol,
	}
	os.MkdirAll(filepath.Join(verifRoot, "evidence"), 0755)
	os.WriteFile(filepath.Join(verifRoot, "evidence", id+".json"), mustJSON(ev), 0644)
}

func truncVals(v []uint64) []uint64 {
	if len(v) > 40 {
		return v[:40]
	}
	return v
}

func cmdSelftest(args []string) int {
	// solver smoke test + cross-check of the three back ends on a small kernel
	tt := NewTermTable()
	x := tt.Var("x", 32)
	y := tt.Var("y", 32)
	q := tt.Not(tt.Eq(tt.Bin(OpAdd, x, y), tt.Bin(OpAdd, y, x)))
	ok := true
	for _, k := range []string{"z3", "z3-new", "cvc5", "cvc5-int"} {
		r := oneShot(k, tt, nil, q, 20*time.Second)
		fmt.Printf("selftest %s: x+y!=y+x -> %v\n", k, r)
		if r != Unsat {
			ok = false
		}
	}
	s := NewSolver("z3", tt, 10*time.Second)
	r, m := s.Check([]*Term{tt.Cmp(OpULt, x, tt.Const(5, 32))}, tt.Eq(tt.Bin(OpMul, x, tt.Const(3, 32)), tt.Const(12, 32)), true)
	fmt.Printf("selftest incremental z3: %v x=%d\n", r, m.Vars["x"])
	if r != Sat || m.Vars["x"] != 4 {
		ok = false
	}
	s.Close()
	if !ok {
		return 1
	}
	return 0
}

var _ = ssa.InstantiateGenerics
