package main

// Harness primitives (vrt*) and environment stubs.  Every stub here is part
// of the trusted base and is listed in the evidence of checks that hit it.

import (
	"fmt"
	"go/types"
	"strings"

	"golang.org/x/tools/go/ssa"
)

type intrinsicFn func(st *State, th *Thread, fn *ssa.Function, args []Value) (Value, stepStatus)

var intrinsics = map[string]intrinsicFn{}

func reg(name string, f intrinsicFn) { intrinsics[name] = f }

func simple(f func(st *State, args []Value) Value) intrinsicFn {
	return func(st *State, th *Thread, fn *ssa.Function, args []Value) (Value, stepStatus) {
		return f(st, args), stNext
	}
}

// no-op packages: every function returns zero values.
var noopPkgPrefixes = []string{"go.uber.org/zap", "github.com/prometheus/", "log", "go.uber.org/multierr"}

func (st *State) zeroResults(fn *ssa.Function) Value {
	res := fn.Signature.Results()
	switch res.Len() {
	case 0:
		return nil
	case 1:
		return st.zero(res.At(0).Type())
	}
	return st.zero(res)
}

func pkgPathOf(fn *ssa.Function) string {
	if fn.Pkg != nil {
		return fn.Pkg.Pkg.Path()
	}
	if o := fn.Origin(); o != nil && o.Pkg != nil {
		return o.Pkg.Pkg.Path()
	}
	if fn.Signature != nil && fn.Signature.Recv() != nil {
		t := fn.Signature.Recv().Type()
		if p, ok := t.(*types.Pointer); ok {
			t = p.Elem()
		}
		if n, ok := t.(*types.Named); ok && n.Obj().Pkg() != nil {
			return n.Obj().Pkg().Path()
		}
	}
	if fn.Parent() != nil {
		return pkgPathOf(fn.Parent())
	}
	return ""
}

func (st *State) intrinsic(th *Thread, fr *Frame, fv FuncV, args []Value, c *ssa.CallCommon) (Value, stepStatus, bool) {
	fn := fv.Fn
	name := fn.Name()
	if strings.HasPrefix(name, "vrt") && fn.Signature.Recv() == nil {
		if f, ok := vrtPrims[name]; ok {
			v, s := f(st, th, fn, args)
			return v, s, true
		}
	}
	key := fnKey(fn)
	if f, ok := intrinsics[key]; ok {
		st.eng.noteStub(key)
		v, s := f(st, th, fn, args)
		return v, s, true
	}
	pp := pkgPathOf(fn)
	for _, p := range noopPkgPrefixes {
		if pp == p || strings.HasPrefix(pp, p+"/") || (strings.HasSuffix(p, "/") && strings.HasPrefix(pp, p)) {
			st.eng.noteStub(p + " (no-op)")
			return st.zeroResults(fn), stNext, true
		}
	}
	if st.eng.cfg.AtomicPkgs[pp] && st.inAtomic == 0 && st.multi() {
		// library call executed as one atomic synchronisation operation
		if !st.syncPoint(th, "libcall") {
			return nil, stYield, true
		}
		st.opDone(th)
		r := st.callSyncNoIntrinsic(th, fv, args)
		return r, stNext, true
	}
	return nil, stNext, false
}

func (st *State) callSyncNoIntrinsic(th *Thread, f FuncV, args []Value) Value {
	var result Value
	done := false
	base := len(th.stack)
	st.pushCall(th, f, args, nil, func(v Value) { result = v; done = true })
	st.inAtomic++
	defer func() { st.inAtomic-- }()
	for !done && len(th.stack) > base {
		s := st.step(th)
		if s == stBlock || s == stYield {
			panic(pathAbort{kind: "INTERNAL", msg: "blocking operation inside atomic library call at " + st.curSite()})
		}
	}
	return result
}

// tryIntrinsic is used for engine-initiated calls (callSync, defers).
func (st *State) tryIntrinsic(th *Thread, fv FuncV, args []Value, c *ssa.CallCommon) (Value, bool) {
	fn := fv.Fn
	v, s, handled := st.intrinsic(th, nil, fv, args, c)
	if handled && s != stNext {
		panic(pathAbort{kind: "INTERNAL", msg: "blocking intrinsic " + fn.String() + " in engine-initiated call"})
	}
	return v, handled
}

func (st *State) tryIntrinsicFuncV(th *Thread, f FuncV, args []Value) (Value, bool) {
	if f.Builtin != nil {
		// deferred builtins: close, delete, recover, panic...
		switch f.Builtin.Name() {
		case "close":
			st.chanClose(th, args[0].(ChanV))
			return nil, true
		case "delete":
			st.mapDelete(args[0].(MapV).M, args[1])
			return nil, true
		case "recover":
			return IfaceV{}, true
		}
		panic(unsupported("deferred builtin " + f.Builtin.Name()))
	}
	if f.Native != "" {
		v, s := st.callNative(th, nil, f, args)
		if s != stNext {
			panic(pathAbort{kind: "INTERNAL", msg: "blocking native in deferred call: " + f.Native})
		}
		return v, true
	}
	if f.Fn == nil {
		panic(st.violation("deferred call of nil function", nil))
	}
	return st.tryIntrinsic(th, f, args, nil)
}

func (st *State) goIntrinsic(th *Thread, fn *ssa.Function, args []Value) (Value, stepStatus, bool) {
	return nil, stNext, false
}

// ---------- helpers ----------

func (st *State) boolArgs(v Value) []*Term {
	s := v.(SliceV)
	if s.Arr.Obj == nil {
		return nil
	}
	arr := st.arrayAt(s.Arr)
	n := int(s.Len.Val)
	out := make([]*Term, n)
	for i := 0; i < n; i++ {
		out[i] = arr.get(int(s.Off.Val)+i).(*Term)
	}
	return out
}

func (st *State) mustConcreteString(v Value, what string) string {
	s, ok := st.concreteString(v.(StrV))
	if !ok {
		panic(unsupported(what + ": string must be concrete"))
	}
	return s
}

func (st *State) mustConst(v Value, what string) uint64 {
	t := v.(*Term)
	if !t.IsConst() {
		panic(unsupported(what + ": value must be concrete"))
	}
	return t.Val
}

func (st *State) symBytes(n int, kind string) *Object {
	bs := make([]*Term, n)
	for i := range bs {
		bs[i] = st.fresh(kind, 8)
	}
	return st.bytesObject(bs, "vrt "+kind)
}

// ---------- vrt primitives ----------

var vrtPrims = map[string]intrinsicFn{}

func init() {
	w := func(width int, kind string) intrinsicFn {
		return simple(func(st *State, args []Value) Value { return st.fresh(kind, width) })
	}
	vrtPrims["vrtU8"] = w(8, "u8")
	vrtPrims["vrtU16"] = w(16, "u16")
	vrtPrims["vrtU32"] = w(32, "u32")
	vrtPrims["vrtU64"] = w(64, "u64")
	vrtPrims["vrtInt"] = w(64, "int")
	// vrtBelow(n): fresh 64-bit value in [0, n) whose range is known to the term layer
	vrtPrims["vrtBelow"] = simple(func(st *State, args []Value) Value {
		n := st.mustConst(args[0], "vrtBelow")
		if n == 0 {
			panic(pathAbort{kind: "INFEASIBLE", msg: "vrtBelow(0)"})
		}
		v := st.fresh("below", 64)
		c := st.tt.RawULt(v, st.tt.Const(n, 64)) // unfolded: the declared range must reach the solver
		v.RHi = n - 1
		st.assume(c)
		return v
	})
	vrtPrims["vrtBool"] = simple(func(st *State, args []Value) Value {
		return st.fresh("bool", 0)
	})
	vrtPrims["vrtBytes"] = simple(func(st *State, args []Value) Value {
		n := int(st.mustConst(args[0], "vrtBytes"))
		o := st.symBytes(n, "byte")
		c := st.tt.Const(uint64(n), 64)
		return SliceV{Arr: Ptr{Obj: o}, Off: st.tt.Const(0, 64), Len: c, Cap: c}
	})
	vrtPrims["vrtString"] = simple(func(st *State, args []Value) Value {
		n := int(st.mustConst(args[0], "vrtString"))
		o := st.symBytes(n, "byte")
		o.Frozen = true
		return StrV{Arr: Ptr{Obj: o}, Off: st.tt.Const(0, 64), Len: st.tt.Const(uint64(n), 64)}
	})
	// vrtStringN(max): symbolic length 0..max
	vrtPrims["vrtStringN"] = simple(func(st *State, args []Value) Value {
		n := int(st.mustConst(args[0], "vrtStringN"))
		ln := st.fresh("len", 64)
		st.assume(st.tt.Cmp(OpULe, ln, st.tt.Const(uint64(n), 64)))
		o := st.symBytes(n, "byte")
		o.Frozen = true
		return StrV{Arr: Ptr{Obj: o}, Off: st.tt.Const(0, 64), Len: ln}
	})
	vrtPrims["vrtBytesN"] = simple(func(st *State, args []Value) Value {
		n := int(st.mustConst(args[0], "vrtBytesN"))
		ln := st.fresh("len", 64)
		st.assume(st.tt.Cmp(OpULe, ln, st.tt.Const(uint64(n), 64)))
		o := st.symBytes(n, "byte")
		return SliceV{Arr: Ptr{Obj: o}, Off: st.tt.Const(0, 64), Len: ln, Cap: ln}
	})
	vrtPrims["vrtChoice"] = simple(func(st *State, args []Value) Value {
		n := int(st.mustConst(args[0], "vrtChoice"))
		alts := make([]int64, n)
		for i := range alts {
			alts[i] = int64(i)
		}
		k := st.decide("choice", alts)
		st.choices = append(st.choices, k)
		return st.tt.Const(uint64(k), 64)
	})
	vrtPrims["vrtAssume"] = simple(func(st *State, args []Value) Value {
		c := args[0].(*Term)
		if c.IsFalse() {
			st.assumesCut++
			panic(pathAbort{kind: "INFEASIBLE", msg: "assumed away"})
		}
		if !c.IsTrue() {
			st.assume(c)
			// keep only feasible paths
			if !st.inPrefix() {
				r, _ := st.w.solver.Check(st.pc, nil, false, "feas")
				st.decide("asm", nil2)
				if r == Unsat {
					st.assumesCut++
					panic(pathAbort{kind: "INFEASIBLE", msg: "assumed away"})
				}
			} else {
				st.decide("asm", nil2)
			}
		}
		return nil
	})
	vrtPrims["vrtAssert"] = simple(func(st *State, args []Value) Value {
		label := st.mustConcreteString(args[0], "vrtAssert label")
		st.assertCond(label, args[1].(*Term))
		return nil
	})
	vrtPrims["vrtCover"] = simple(func(st *State, args []Value) Value {
		label := st.mustConcreteString(args[0], "vrtCover label")
		st.coverCond(label, args[1].(*Term))
		return nil
	})
	vrtPrims["vrtObserve"] = simple(func(st *State, args []Value) Value {
		label := st.mustConcreteString(args[0], "vrtObserve label")
		t := args[1].(*Term)
		st.obsTerms = append(st.obsTerms, obsRec{label, t})
		return nil
	})
	vrtPrims["vrtAnd"] = simple(func(st *State, args []Value) Value {
		r := st.tt.True
		for _, a := range st.boolArgs(args[0]) {
			r = st.tt.And(r, a)
		}
		return r
	})
	vrtPrims["vrtOr"] = simple(func(st *State, args []Value) Value {
		r := st.tt.False
		for _, a := range st.boolArgs(args[0]) {
			r = st.tt.Or(r, a)
		}
		return r
	})
	vrtPrims["vrtImplies"] = simple(func(st *State, args []Value) Value {
		return st.tt.Implies(args[0].(*Term), args[1].(*Term))
	})
	vrtPrims["vrtIte"] = simple(func(st *State, args []Value) Value {
		return st.tt.Ite(args[0].(*Term), args[1].(*Term), args[2].(*Term))
	})
	vrtPrims["vrtIteU64"] = vrtPrims["vrtIte"]
	vrtPrims["vrtStrEq"] = simple(func(st *State, args []Value) Value {
		return st.strEq(args[0].(StrV), args[1].(StrV))
	})
	vrtPrims["vrtBytesEq"] = simple(func(st *State, args []Value) Value {
		a, b := args[0].(SliceV), args[1].(SliceV)
		return st.strEq(StrV{Arr: a.Arr, Off: a.Off, Len: a.Len}, StrV{Arr: b.Arr, Off: b.Off, Len: b.Len})
	})
	vrtPrims["vrtSymbolic"] = simple(func(st *State, args []Value) Value { return st.tt.True })
	vrtPrims["vrtChoiceNative"] = simple(func(st *State, args []Value) Value { return st.tt.Const(0, 64) })
	vrtPrims["vrtYield"] = func(st *State, th *Thread, fn *ssa.Function, args []Value) (Value, stepStatus) {
		if st.multi() {
			if !st.syncPoint(th, "yield") {
				return nil, stYield
			}
			st.opDone(th)
		}
		return nil, stNext
	}
	vrtPrims["vrtWaitQuiescent"] = func(st *State, th *Thread, fn *ssa.Function, args []Value) (Value, stepStatus) {
		return nil, st.quiesce(th)
	}
	vrtPrims["vrtAtomic"] = func(st *State, th *Thread, fn *ssa.Function, args []Value) (Value, stepStatus) {
		if st.multi() {
			if !st.syncPoint(th, "atomic") {
				return nil, stYield
			}
			st.opDone(th)
		}
		st.callSync(th, args[0].(FuncV), nil)
		return nil, stNext
	}
	vrtPrims["vrtAwait"] = func(st *State, th *Thread, fn *ssa.Function, args []Value) (Value, stepStatus) {
		guard, action := args[0].(FuncV), args[1].(FuncV)
		if !st.syncPoint(th, "await") {
			return nil, stYield
		}
		g := st.callSync(th, guard, nil).(*Term)
		if st.branch(g) {
			st.opDone(th)
			st.callSync(th, action, nil)
			return nil, stNext
		}
		if th.pending == nil {
			panic(st.violation("deadlock: vrtAwait guard can never become true", nil))
		}
		return nil, st.blockOn(th, func() bool {
			old := st.cur
			st.cur = th
			defer func() { st.cur = old }()
			return st.branch(st.callSync(th, guard, nil).(*Term))
		})
	}
	// vrtBeyondHorizon: every timer that exists now lies beyond the horizon of the scenario and
	// never fires symbolically (natively it is a generous deadline that only a lost wake-up reaches)
	vrtPrims["vrtBeyondHorizon"] = simple(func(st *State, args []Value) Value {
		for _, t := range st.timers {
			t.never = true
		}
		return nil
	})
	vrtPrims["vrtEnvState"] = simple(func(st *State, args []Value) Value {
		if p, ok := args[0].(IfaceV); ok {
			if pp, ok := p.V.(Ptr); ok && pp.Obj != nil {
				pp.Obj.Env = true
			}
		}
		return nil
	})
	vrtPrims["vrtPoison"] = simple(func(st *State, args []Value) Value {
		s := args[0].(SliceV)
		if s.Arr.Obj != nil {
			s.Arr.Obj.Poisoned = st.mustConcreteString(args[1], "vrtPoison")
		}
		return nil
	})
	vrtPrims["vrtThreadsQuiescent"] = simple(func(st *State, args []Value) Value {
		// true iff every thread other than the caller has finished
		for _, t := range st.thrs {
			if t != st.cur && !t.done && !t.daemon {
				return st.tt.False
			}
		}
		return st.tt.True
	})
	vrtPrims["vrtLiveThreads"] = simple(func(st *State, args []Value) Value {
		n := 0
		for _, t := range st.thrs {
			if t != st.cur && !t.done && !t.daemon {
				n++
			}
		}
		return st.tt.Const(uint64(n), 64)
	})
	vrtPrims["vrtDaemon"] = simple(func(st *State, args []Value) Value {
		st.cur.daemon = true
		return nil
	})
	vrtPrims["vrtNote"] = simple(func(st *State, args []Value) Value {
		st.trace = append(st.trace, st.mustConcreteString(args[0], "vrtNote"))
		return nil
	})
	vrtPrims["vrtClockAdvance"] = simple(func(st *State, args []Value) Value {
		tt := st.tt
		d := args[0].(*Term)
		st.check(tt.Cmp(OpSLe, tt.Const(0, 64), d), "vrtClockAdvance: negative duration")
		st.now = tt.Bin(OpAdd, st.clockNow(), d)
		return nil
	})
	vrtPrims["vrtFreezeTimers"] = simple(func(st *State, args []Value) Value {
		st.timersFrozen = true
		return nil
	})
	vrtPrims["vrtTimerFires"] = simple(func(st *State, args []Value) Value {
		n := 0
		for _, t := range st.timers {
			n += t.fired
		}
		return st.tt.Const(uint64(n), 64)
	})
	vrtPrims["vrtIsSym"] = simple(func(st *State, args []Value) Value { return st.tt.True })
}

type obsRec struct {
	label string
	t     *Term
}

func (st *State) assertCond(label string, c *Term) {
	st.eng.noteAssertSite(label)
	if c.IsTrue() {
		st.eng.noteObligation(true)
		if st.inPrefix() {
			st.decide("ast", nil2)
		} else {
			st.decide("ast", nil2)
		}
		return
	}
	if st.inPrefix() {
		st.decide("ast", nil2)
		if c.IsFalse() {
			panic(pathAbort{kind: "DONE", msg: "assertion failed (reported on first visit): " + label})
		}
		st.assume(c)
		return
	}
	r, m := st.w.solver.Check(st.pc, st.tt.Not(c), true, "assert")
	st.decide("ast", nil2)
	st.eng.noteObligation(r != Unknown)
	switch r {
	case Sat:
		st.recordViolation(label, m)
	case Unknown:
		st.noteInconclusive("assertion " + label + ": solver unknown")
	}
	if c.IsFalse() {
		panic(pathAbort{kind: "DONE", msg: "assertion failed: " + label})
	}
	st.assume(c)
}

func (st *State) coverCond(label string, c *Term) {
	st.eng.noteCoverSite(label)
	if st.eng.coverDone(label) || c.IsFalse() || st.inPrefix() {
		return
	}
	r, m := st.w.solver.Check(st.pc, c, true, "cover")
	if r == Sat {
		h := &CoverHit{Label: label, Values: st.symValues(m), Choices: append([]int64{}, st.choices...), Decisions: append([]Decision{}, st.decisions...)}
		for _, o := range st.obsTerms {
			h.Observes = append(h.Observes, fmt.Sprintf("%s=%d", o.label, m.Eval(o.t)))
		}
		st.eng.noteCover(label, h)
	}
}

// ---------- heap reachability (C10) ----------

// reachObjects collects the mutable heap objects reachable from v.
func (st *State) reachObjects(v Value, seen map[int]bool, maps map[int]bool) {
	switch x := v.(type) {
	case Ptr:
		if x.Obj == nil || x.Obj.Frozen || seen[x.Obj.ID] {
			return
		}
		seen[x.Obj.ID] = true
		st.reachObjects(x.Obj.V, seen, maps)
	case SliceV:
		if x.Arr.Obj == nil || seen[x.Arr.Obj.ID] {
			return
		}
		if x.Len.IsConst() && x.Len.Val == 0 && x.Cap.IsConst() && x.Cap.Val == 0 {
			return
		}
		seen[x.Arr.Obj.ID] = true
		st.reachObjects(x.Arr.Obj.V, seen, maps)
	case *StructV:
		for _, f := range x.F {
			st.reachObjects(f, seen, maps)
		}
	case *ArrayV:
		for _, e := range x.E {
			if e != nil {
				st.reachObjects(e, seen, maps)
			}
		}
	case IfaceV:
		if x.T != nil {
			st.reachObjects(x.V, seen, maps)
		}
	case MapV:
		if x.M != nil && !maps[x.M.ID] {
			maps[x.M.ID] = true
			for _, e := range x.M.Entries {
				st.reachObjects(e.K, seen, maps)
				st.reachObjects(e.V, seen, maps)
			}
		}
	case FuncV:
		for _, e := range x.Env {
			st.reachObjects(e, seen, maps)
		}
	case TupleV:
		for _, e := range x {
			st.reachObjects(e, seen, maps)
		}
	}
}

func init() {
	vrtPrims["vrtDisjoint"] = simple(func(st *State, args []Value) Value {
		a, am := map[int]bool{}, map[int]bool{}
		b, bm := map[int]bool{}, map[int]bool{}
		st.reachObjects(args[0], a, am)
		st.reachObjects(args[1], b, bm)
		for id := range a {
			if b[id] {
				return st.tt.False
			}
		}
		for id := range am {
			if bm[id] {
				return st.tt.False
			}
		}
		return st.tt.True
	})
}
