package main

// String/byte kernels whose real bodies are assembly (internal/bytealg) or
// Unicode-heavy.  Semantics: documented behaviour on ASCII data.

import (
	"go/types"
	"regexp"
	"strings"

	"golang.org/x/tools/go/ssa"
)

type byteWin struct {
	arr *ArrayV
	ptr Ptr
	off *Term
	ln  *Term
	max int
}

func (st *State) winOf(v Value) byteWin {
	switch s := v.(type) {
	case StrV:
		return byteWin{arr: st.strArr(s), ptr: s.Arr, off: s.Off, ln: s.Len, max: st.maxLenOf(s.Arr, s.Off, s.Len)}
	case SliceV:
		if s.Arr.Obj == nil {
			return byteWin{arr: &ArrayV{}, off: st.tt.Const(0, 64), ln: st.tt.Const(0, 64)}
		}
		return byteWin{arr: st.arrayAt(s.Arr), ptr: s.Arr, off: s.Off, ln: s.Len, max: st.maxLenOf(s.Arr, s.Off, s.Len)}
	}
	panic(unsupported("winOf"))
}

func (st *State) winByte(w byteWin, i int) *Term { return st.strByte(w.arr, w.off, i) }

// indexByte: first (or last) index of c in w, or -1.
func (st *State) indexByte(w byteWin, c *Term, last bool) *Term {
	tt := st.tt
	res := tt.Const(^uint64(0), 64)
	if !last {
		for i := w.max - 1; i >= 0; i-- {
			hit := tt.And(tt.Cmp(OpULt, tt.Const(uint64(i), 64), w.ln), tt.Eq(st.winByte(w, i), c))
			res = tt.Ite(hit, tt.Const(uint64(i), 64), res)
		}
		return res
	}
	for i := 0; i < w.max; i++ {
		hit := tt.And(tt.Cmp(OpULt, tt.Const(uint64(i), 64), w.ln), tt.Eq(st.winByte(w, i), c))
		res = tt.Ite(hit, tt.Const(uint64(i), 64), res)
	}
	return res
}

// matchAt: does sub occur in w at concrete position i?
func (st *State) matchAt(w, sub byteWin, i int) *Term {
	tt := st.tt
	// i + len(sub) <= len(w)
	r := tt.Cmp(OpULe, tt.Bin(OpAdd, tt.Const(uint64(i), 64), sub.ln), w.ln)
	for k := 0; k < sub.max; k++ {
		if i+k >= w.max {
			r = tt.And(r, tt.Cmp(OpULe, sub.ln, tt.Const(uint64(k), 64)))
			break
		}
		in := tt.Cmp(OpULt, tt.Const(uint64(k), 64), sub.ln)
		r = tt.And(r, tt.Implies(in, tt.Eq(st.winByte(w, i+k), st.winByte(sub, k))))
		if r.IsFalse() {
			return r
		}
	}
	return r
}

func (st *State) indexStr(w, sub byteWin, last bool) *Term {
	tt := st.tt
	res := tt.Const(^uint64(0), 64)
	if !last {
		for i := w.max; i >= 0; i-- {
			res = tt.Ite(st.matchAt(w, sub, i), tt.Const(uint64(i), 64), res)
		}
		return res
	}
	for i := 0; i <= w.max; i++ {
		res = tt.Ite(st.matchAt(w, sub, i), tt.Const(uint64(i), 64), res)
	}
	return res
}

func (st *State) lowerByte(b *Term) *Term {
	tt := st.tt
	isUp := tt.And(tt.Cmp(OpULe, tt.Const('A', 8), b), tt.Cmp(OpULe, b, tt.Const('Z', 8)))
	return tt.Ite(isUp, tt.Bin(OpAdd, b, tt.Const(32, 8)), b)
}

func (st *State) assumeASCII(w byteWin, what string) {
	tt := st.tt
	st.noteAssumption("strings are ASCII (bytes < 0x80) wherever " + what + " is applied")
	for i := 0; i < w.max; i++ {
		in := tt.Cmp(OpULt, tt.Const(uint64(i), 64), w.ln)
		st.assume(tt.Implies(in, tt.Cmp(OpULt, st.winByte(w, i), tt.Const(0x80, 8))))
	}
}

func (st *State) subStr(s StrV, from, to *Term) StrV {
	return StrV{Arr: s.Arr, Off: st.tt.Bin(OpAdd, s.Off, from), Len: st.tt.Bin(OpSub, to, from)}
}

func init() {
	idxB := func(last bool) intrinsicFn {
		return simple(func(st *State, a []Value) Value { return st.indexByte(st.winOf(a[0]), a[1].(*Term), last) })
	}
	reg("internal/bytealg.IndexByteString", idxB(false))
	reg("internal/bytealg.IndexByte", idxB(false))
	reg("internal/bytealg.LastIndexByteString", idxB(true))
	reg("internal/bytealg.LastIndexByte", idxB(true))
	reg("strings.IndexByte", idxB(false))
	reg("strings.LastIndexByte", idxB(true))
	reg("bytes.IndexByte", idxB(false))
	reg("internal/stringslite.IndexByte", idxB(false))
	reg("strings.IndexRune", simple(func(st *State, a []Value) Value {
		r := a[1].(*Term)
		if !r.IsConst() || r.Val >= 0x80 {
			panic(unsupported("strings.IndexRune with non-ASCII or symbolic rune"))
		}
		return st.indexByte(st.winOf(a[0]), st.tt.Const(r.Val, 8), false)
	}))
	idxS := func(last bool) intrinsicFn {
		return simple(func(st *State, a []Value) Value { return st.indexStr(st.winOf(a[0]), st.winOf(a[1]), last) })
	}
	reg("strings.Index", idxS(false))
	reg("strings.LastIndex", idxS(true))
	reg("internal/stringslite.Index", idxS(false))
	reg("bytes.Index", idxS(false))
	reg("internal/bytealg.IndexString", idxS(false))
	reg("strings.Contains", simple(func(st *State, a []Value) Value {
		i := st.indexStr(st.winOf(a[0]), st.winOf(a[1]), false)
		return st.tt.Not(st.tt.Eq(i, st.tt.Const(^uint64(0), 64)))
	}))
	reg("strings.ContainsRune", simple(func(st *State, a []Value) Value {
		r := a[1].(*Term)
		if !r.IsConst() || r.Val >= 0x80 {
			panic(unsupported("strings.ContainsRune with non-ASCII or symbolic rune"))
		}
		i := st.indexByte(st.winOf(a[0]), st.tt.Const(r.Val, 8), false)
		return st.tt.Not(st.tt.Eq(i, st.tt.Const(^uint64(0), 64)))
	}))
	reg("strings.HasPrefix", simple(func(st *State, a []Value) Value { return st.matchAt(st.winOf(a[0]), st.winOf(a[1]), 0) }))
	reg("internal/stringslite.HasPrefix", intrinsics["strings.HasPrefix"])
	reg("strings.HasSuffix", simple(func(st *State, a []Value) Value {
		tt := st.tt
		s, suf := a[0].(StrV), a[1].(StrV)
		fits := tt.Cmp(OpULe, suf.Len, s.Len)
		tail := st.subStr(s, tt.Bin(OpSub, s.Len, suf.Len), s.Len)
		// guard the subtraction: if it does not fit the equality is irrelevant
		tail.Len = tt.Ite(fits, tail.Len, tt.Const(0, 64))
		tail.Off = tt.Ite(fits, tail.Off, s.Off)
		return tt.And(fits, st.strEq(tail, suf))
	}))
	reg("internal/stringslite.HasSuffix", intrinsics["strings.HasSuffix"])
	reg("strings.TrimPrefix", simple(func(st *State, a []Value) Value {
		tt := st.tt
		s, p := a[0].(StrV), a[1].(StrV)
		has := st.matchAt(st.winOf(s), st.winOf(p), 0)
		d := tt.Ite(has, p.Len, tt.Const(0, 64))
		return StrV{Arr: s.Arr, Off: tt.Bin(OpAdd, s.Off, d), Len: tt.Bin(OpSub, s.Len, d)}
	}))
	reg("strings.TrimSuffix", simple(func(st *State, a []Value) Value {
		tt := st.tt
		s, suf := a[0].(StrV), a[1].(StrV)
		fits := tt.Cmp(OpULe, suf.Len, s.Len)
		tail := st.subStr(s, tt.Bin(OpSub, s.Len, suf.Len), s.Len)
		tail.Len = tt.Ite(fits, tail.Len, tt.Const(0, 64))
		tail.Off = tt.Ite(fits, tail.Off, s.Off)
		has := tt.And(fits, st.strEq(tail, suf))
		return StrV{Arr: s.Arr, Off: s.Off, Len: tt.Ite(has, tt.Bin(OpSub, s.Len, suf.Len), s.Len)}
	}))
	reg("strings.ToLower", simple(func(st *State, a []Value) Value {
		s := a[0].(StrV)
		w := st.winOf(s)
		st.assumeASCII(w, "strings.ToLower")
		if s.Arr.Obj != nil && !s.Arr.Obj.Frozen {
			// the string aliases mutable memory (unsafe.String over a buffer): like the real function,
			// return the argument itself - still aliased - when there is nothing to lower
			hasUpper := st.tt.False
			for i := 0; i < w.max; i++ {
				b := st.winByte(w, i)
				in := st.tt.Cmp(OpULt, st.tt.Const(uint64(i), 64), s.Len)
				hasUpper = st.tt.Or(hasUpper, st.tt.And(in, st.tt.And(st.tt.Cmp(OpULe, st.tt.Const('A', 8), b), st.tt.Cmp(OpULe, b, st.tt.Const('Z', 8)))))
			}
			if !st.branch(hasUpper) {
				return s
			}
		}
		out := make([]*Term, w.max)
		for i := range out {
			out[i] = st.lowerByte(st.winByte(w, i))
		}
		o := st.bytesObject(out, "ToLower")
		o.Frozen = true
		return StrV{Arr: Ptr{Obj: o}, Off: st.tt.Const(0, 64), Len: s.Len}
	}))
	reg("strings.EqualFold", simple(func(st *State, a []Value) Value {
		tt := st.tt
		x, y := st.winOf(a[0]), st.winOf(a[1])
		st.assumeASCII(x, "strings.EqualFold")
		st.assumeASCII(y, "strings.EqualFold")
		r := tt.Eq(x.ln, y.ln)
		n := x.max
		if y.max < n {
			n = y.max
		}
		for i := 0; i < n; i++ {
			in := tt.Cmp(OpULt, tt.Const(uint64(i), 64), x.ln)
			r = tt.And(r, tt.Implies(in, tt.Eq(st.lowerByte(st.winByte(x, i)), st.lowerByte(st.winByte(y, i)))))
		}
		return r
	}))
	reg("strings.Clone", simple(func(st *State, a []Value) Value { return st.cloneStr(a[0].(StrV)) }))
	reg("strings.TrimSpace", simple(func(st *State, a []Value) Value {
		tt := st.tt
		s := a[0].(StrV)
		w := st.winOf(s)
		st.assumeASCII(w, "strings.TrimSpace")
		isSp := func(b *Term) *Term {
			r := tt.Eq(b, tt.Const(' ', 8))
			for _, c := range []uint64{'\t', '\n', '\v', '\f', '\r'} {
				r = tt.Or(r, tt.Eq(b, tt.Const(c, 8)))
			}
			return r
		}
		// start = first non-space index (or len); end = last non-space index + 1 (or start)
		start := s.Len
		for i := w.max - 1; i >= 0; i-- {
			in := tt.Cmp(OpULt, tt.Const(uint64(i), 64), s.Len)
			start = tt.Ite(tt.And(in, tt.Not(isSp(st.winByte(w, i)))), tt.Const(uint64(i), 64), start)
		}
		end := start
		for i := 0; i < w.max; i++ {
			in := tt.Cmp(OpULt, tt.Const(uint64(i), 64), s.Len)
			end = tt.Ite(tt.And(in, tt.Not(isSp(st.winByte(w, i)))), tt.Const(uint64(i+1), 64), end)
		}
		return st.subStr(s, start, end)
	}))
	reg("strings.Count", simple(func(st *State, a []Value) Value {
		tt := st.tt
		w, sub := st.winOf(a[0]), st.winOf(a[1])
		if !sub.ln.IsConst() || sub.ln.Val != 1 {
			panic(unsupported("strings.Count with a separator that is not one byte"))
		}
		c := st.winByte(sub, 0)
		n := tt.Const(0, 64)
		for i := 0; i < w.max; i++ {
			hit := tt.And(tt.Cmp(OpULt, tt.Const(uint64(i), 64), w.ln), tt.Eq(st.winByte(w, i), c))
			n = tt.Bin(OpAdd, n, tt.Ite(hit, tt.Const(1, 64), tt.Const(0, 64)))
		}
		return n
	}))
	reg("internal/bytealg.CountString", simple(func(st *State, a []Value) Value {
		tt := st.tt
		w := st.winOf(a[0])
		c := a[1].(*Term)
		n := tt.Const(0, 64)
		for i := 0; i < w.max; i++ {
			hit := tt.And(tt.Cmp(OpULt, tt.Const(uint64(i), 64), w.ln), tt.Eq(st.winByte(w, i), c))
			n = tt.Bin(OpAdd, n, tt.Ite(hit, tt.Const(1, 64), tt.Const(0, 64)))
		}
		return n
	}))
	reg("internal/bytealg.Count", intrinsics["internal/bytealg.CountString"])
	reg("bytes.Equal", simple(func(st *State, a []Value) Value {
		x, y := st.winOf(a[0]), st.winOf(a[1])
		return st.strEq(StrV{Arr: x.ptr, Off: x.off, Len: x.ln}, StrV{Arr: y.ptr, Off: y.off, Len: y.ln})
	}))
	reg("internal/bytealg.Equal", intrinsics["bytes.Equal"])
	reg("strings.Cut", simple(func(st *State, a []Value) Value {
		tt := st.tt
		s, sep := a[0].(StrV), a[1].(StrV)
		i := st.indexStr(st.winOf(s), st.winOf(sep), false)
		found := tt.Not(tt.Eq(i, tt.Const(^uint64(0), 64)))
		before := StrV{Arr: s.Arr, Off: s.Off, Len: tt.Ite(found, i, s.Len)}
		aOff := tt.Bin(OpAdd, i, sep.Len)
		after := StrV{Arr: s.Arr, Off: tt.Ite(found, tt.Bin(OpAdd, s.Off, aOff), s.Off), Len: tt.Ite(found, tt.Bin(OpSub, s.Len, aOff), tt.Const(0, 64))}
		return TupleV{before, after, found}
	}))
	reg("strings.Fields", simple(func(st *State, a []Value) Value {
		cs, ok := st.concreteString(a[0].(StrV))
		if !ok {
			panic(unsupported("strings.Fields on a symbolic string"))
		}
		fs := strings.Fields(cs)
		arr := &ArrayV{E: make([]Value, len(fs))}
		for i, f := range fs {
			arr.E[i] = st.constString(f)
		}
		o := st.newObject(arr, nil, "strings.Fields")
		n := st.tt.Const(uint64(len(fs)), 64)
		return SliceV{Arr: Ptr{Obj: o}, Off: st.tt.Const(0, 64), Len: n, Cap: n}
	}))
	// strings.Builder: executed from SSA except for the copy check
	reg("(*strings.Builder).copyCheck", simple(func(st *State, a []Value) Value { return nil }))
	reg("internal/abi.NoEscape", simple(func(st *State, a []Value) Value { return a[0] }))
	reg("internal/bytealg.MakeNoZero", func(st *State, th *Thread, fn *ssa.Function, a []Value) (Value, stepStatus) {
		n := a[0].(*Term)
		return st.makeSlice(byteType, n, n), stNext
	})
}

// cloneStr copies a string's bytes into fresh immutable memory (matters only when the source
// aliases a mutable buffer through unsafe).
func (st *State) cloneStr(s StrV) StrV {
	if s.Arr.Obj == nil {
		return s
	}
	return st.bytesToStr(SliceV{Arr: s.Arr, Off: s.Off, Len: s.Len, Cap: s.Len})
}

// regexp: patterns over literal characters and '.' (any character) only - the class for
// which unanchored matching is a wildcard substring search; anything else needs concrete
// operands (then Go's own regexp decides).
func init() {
	reg("regexp.Compile", func(st *State, th *Thread, fn *ssa.Function, a []Value) (Value, stepStatus) {
		pt := fn.Signature.Results().At(0).Type().(*types.Pointer)
		o := st.newObject(st.zero(pt.Elem()), pt.Elem(), "regexp")
		// the compiled program does not depend on the source string's memory afterwards
		st.kv["regexp:"+Ptr{Obj: o}.key()] = st.cloneStr(a[0].(StrV))
		if cs, ok := st.concreteString(a[0].(StrV)); ok {
			if _, err := regexp.Compile(cs); err != nil {
				return TupleV{Ptr{}, st.opaqueError("regexp: " + err.Error())}, stNext
			}
		}
		return TupleV{Ptr{Obj: o}, IfaceV{}}, stNext
	})
	reg("(*regexp.Regexp).MatchString", simple(func(st *State, a []Value) Value {
		tt := st.tt
		pat := st.kv["regexp:"+a[0].(Ptr).key()].(StrV)
		s := a[1].(StrV)
		if cp, ok := st.concreteString(pat); ok {
			if cs, ok := st.concreteString(s); ok {
				return tt.Bool(regexp.MustCompile(cp).MatchString(cs))
			}
			for i := 0; i < len(cp); i++ {
				if strings.IndexByte(`\+*?()|[]{}^$`, cp[i]) >= 0 {
					panic(unsupported("regexp with metacharacters applied to a symbolic string"))
				}
			}
		}
		st.noteAssumption("regular expressions are restricted to literal characters and '.' (wildcard substring search); other regexp syntax is not modelled")
		p, w := st.winOf(pat), st.winOf(s)
		res := tt.False
		for i := 0; i <= w.max; i++ {
			// pattern occurs at position i
			m := tt.Cmp(OpULe, tt.Bin(OpAdd, tt.Const(uint64(i), 64), p.ln), w.ln)
			for k := 0; k < p.max; k++ {
				in := tt.Cmp(OpULt, tt.Const(uint64(k), 64), p.ln)
				pc := st.winByte(p, k)
				var eq *Term
				if i+k < w.max {
					eq = tt.Or(tt.Eq(pc, tt.Const('.', 8)), tt.Eq(pc, st.winByte(w, i+k)))
				} else {
					eq = tt.False
				}
				m = tt.And(m, tt.Implies(in, eq))
			}
			res = tt.Or(res, m)
		}
		return res
	}))
	reg("strings.IndexFunc", simple(func(st *State, a []Value) Value {
		// only used with unicode.IsSpace on ASCII data
		f := a[1].(FuncV)
		if f.Fn == nil || f.Fn.String() != "unicode.IsSpace" {
			panic(unsupported("strings.IndexFunc with a predicate other than unicode.IsSpace"))
		}
		tt := st.tt
		w := st.winOf(a[0])
		st.assumeASCII(w, "strings.IndexFunc(unicode.IsSpace)")
		res := tt.Const(^uint64(0), 64)
		for i := w.max - 1; i >= 0; i-- {
			b := st.winByte(w, i)
			sp := tt.Eq(b, tt.Const(' ', 8))
			for _, c := range []uint64{'\t', '\n', '\v', '\f', '\r'} {
				sp = tt.Or(sp, tt.Eq(b, tt.Const(c, 8)))
			}
			hit := tt.And(tt.Cmp(OpULt, tt.Const(uint64(i), 64), w.ln), sp)
			res = tt.Ite(hit, tt.Const(uint64(i), 64), res)
		}
		return res
	}))
}
