package main

// Values and memory of the symbolic interpreter.
//
// Scalars are *Term.  Composite values (struct, array) are mutable containers
// that live inside Objects; loading a composite deep-copies it (Go value
// semantics).  Pointers are concrete (object, path) pairs, optionally with a
// symbolic last index into an array of mergeable elements.

import (
	"fmt"
	"go/types"
	"strings"

	"golang.org/x/tools/go/ssa"
)

type Value interface{}

type StructV struct{ F []Value }
type ArrayV struct {
	E    []Value
	Lazy func(i int) Value // materialises nil elements on first read (large arbitrary buffers)
}

func (a *ArrayV) get(i int) Value {
	v := a.E[i]
	if v == nil && a.Lazy != nil {
		v = a.Lazy(i)
		a.E[i] = v
	}
	return v
}
type TupleV []Value

type FloatV struct{ F float64 }

type Object struct {
	ID       int
	V        Value // root cell
	T        types.Type
	Poisoned string // non-empty: released pool buffer etc.; any access is a violation
	Env      bool   // harness environment state (exempt from race checking)
	Site     string
	Frozen   bool // immutable (string data)
}

// Ptr addresses a cell. Path elements select struct fields / array elements.
type Ptr struct {
	Obj    *Object
	Path   []int
	SymIdx *Term // optional: symbolic index into the array at Path
	Fn     *ssa.Function
}

func (p Ptr) IsNil() bool { return p.Obj == nil }

func (p Ptr) sub(i int) Ptr {
	np := make([]int, len(p.Path)+1)
	copy(np, p.Path)
	np[len(p.Path)] = i
	return Ptr{Obj: p.Obj, Path: np}
}

func (p Ptr) key() string {
	if p.Obj == nil {
		return "nil"
	}
	var sb strings.Builder
	fmt.Fprintf(&sb, "o%d", p.Obj.ID)
	for _, i := range p.Path {
		fmt.Fprintf(&sb, ".%d", i)
	}
	return sb.String()
}

// SliceV: a window [Off, Off+Len) with capacity Cap into the array cell at Arr.
type SliceV struct {
	Arr Ptr // pointer to an ArrayV cell; Obj==nil => nil slice
	Off *Term
	Len *Term
	Cap *Term
}

// StrV: immutable bytes [Off, Off+Len) of the array cell at Arr.
type StrV struct {
	Arr Ptr
	Off *Term
	Len *Term
}

type IfaceV struct {
	T types.Type // dynamic type; nil => nil interface
	V Value
}

type FuncV struct {
	Fn      *ssa.Function
	Env     []Value
	Builtin *ssa.Builtin
	Native  string // engine-provided function value (e.g. context.CancelFunc)
	Data    Value
}

type mapEntry struct {
	K Value
	V Value
}

type MapObj struct {
	ID      int
	Entries []mapEntry
	KT, VT  types.Type
	shadow  *Object // cell used by the race detector for the whole map
}

type MapV struct{ M *MapObj } // M==nil => nil map

type ChanV struct{ C *ChanObj } // C==nil => nil chan

type MapIter struct {
	M     *MapObj
	Order []mapEntry
	Pos   int
	Str   *StrV
	SPos  int
}

// ---------- zero values ----------

func (st *State) intWidth(t types.Type) (w int, signed bool, ok bool) {
	b, isB := t.Underlying().(*types.Basic)
	if !isB {
		return 0, false, false
	}
	switch b.Kind() {
	case types.Bool, types.UntypedBool:
		return 0, false, true
	case types.Int8:
		return 8, true, true
	case types.Int16:
		return 16, true, true
	case types.Int32, types.UntypedRune:
		return 32, true, true
	case types.Int64, types.Int, types.UntypedInt:
		return 64, true, true
	case types.Uint8:
		return 8, false, true
	case types.Uint16:
		return 16, false, true
	case types.Uint32:
		return 32, false, true
	case types.Uint64, types.Uint, types.Uintptr:
		return 64, false, true
	}
	return 0, false, false
}

func (st *State) zero(t types.Type) Value {
	tt := st.tt
	switch u := t.Underlying().(type) {
	case *types.Basic:
		if w, _, ok := st.intWidth(u); ok {
			return tt.Const(0, w)
		}
		switch u.Kind() {
		case types.String, types.UntypedString:
			return StrV{Off: tt.Const(0, 64), Len: tt.Const(0, 64)}
		case types.Float32, types.Float64, types.UntypedFloat:
			return FloatV{0}
		case types.UnsafePointer:
			return Ptr{}
		case types.UntypedNil:
			return nil
		}
		panic(unsupported("zero of basic " + u.String()))
	case *types.Pointer:
		return Ptr{}
	case *types.Struct:
		s := &StructV{F: make([]Value, u.NumFields())}
		for i := range s.F {
			s.F[i] = st.zero(u.Field(i).Type())
		}
		return s
	case *types.Array:
		n := int(u.Len())
		a := &ArrayV{E: make([]Value, n)}
		if n > 0 {
			z := st.zero(u.Elem())
			for i := range a.E {
				if i == 0 {
					a.E[i] = z
				} else {
					a.E[i] = copyValue(z)
				}
			}
		}
		return a
	case *types.Slice:
		z := tt.Const(0, 64)
		return SliceV{Off: z, Len: z, Cap: z}
	case *types.Map:
		return MapV{}
	case *types.Chan:
		return ChanV{}
	case *types.Interface:
		return IfaceV{}
	case *types.Signature:
		return FuncV{}
	case *types.Tuple:
		tv := make(TupleV, u.Len())
		for i := range tv {
			tv[i] = st.zero(u.At(i).Type())
		}
		return tv
	}
	panic(unsupported("zero of " + t.String()))
}

// copyValue deep-copies composite containers (struct/array); everything else is immutable.
func copyValue(v Value) Value {
	switch x := v.(type) {
	case *StructV:
		n := &StructV{F: make([]Value, len(x.F))}
		for i, f := range x.F {
			n.F[i] = copyValue(f)
		}
		return n
	case *ArrayV:
		n := &ArrayV{E: make([]Value, len(x.E)), Lazy: x.Lazy}
		for i, f := range x.E {
			n.E[i] = copyValue(f)
		}
		return n
	case TupleV:
		n := make(TupleV, len(x))
		for i, f := range x {
			n[i] = copyValue(f)
		}
		return n
	}
	return v
}

// ---------- objects ----------

func (st *State) newObject(v Value, t types.Type, site string) *Object {
	st.nObj++
	return &Object{ID: st.nObj, V: v, T: t, Site: site}
}

// cellAt navigates to the container and index of the cell addressed by p (no SymIdx).
func (st *State) cellRef(p Ptr) (get func() Value, set func(Value)) {
	if p.Obj == nil {
		panic(st.violation("nil pointer dereference", nil))
	}
	if p.Obj.Poisoned != "" {
		panic(st.violation("access to released object: "+p.Obj.Poisoned, nil))
	}
	if len(p.Path) == 0 {
		return func() Value { return p.Obj.V }, func(v Value) { p.Obj.V = v }
	}
	cur := p.Obj.V
	for k := 0; k < len(p.Path)-1; k++ {
		cur = childOf(cur, p.Path[k])
	}
	last := p.Path[len(p.Path)-1]
	switch c := cur.(type) {
	case *StructV:
		return func() Value { return c.F[last] }, func(v Value) { c.F[last] = v }
	case *ArrayV:
		if last < 0 || last >= len(c.E) {
			panic(st.violation(fmt.Sprintf("index %d out of range [0,%d) in pointer path", last, len(c.E)), nil))
		}
		return func() Value { return c.get(last) }, func(v Value) { c.E[last] = v }
	}
	panic(fmt.Sprintf("cellRef: bad container %T for path %v", cur, p.Path))
}

func childOf(v Value, i int) Value {
	switch c := v.(type) {
	case *StructV:
		return c.F[i]
	case *ArrayV:
		return c.get(i)
	}
	panic(fmt.Sprintf("childOf: bad container %T", v))
}

func (st *State) arrayAt(p Ptr) *ArrayV {
	if p.Obj == nil {
		panic(st.violation("nil pointer dereference (array)", nil))
	}
	if p.Obj.Poisoned != "" {
		panic(st.violation("access to released object: "+p.Obj.Poisoned, nil))
	}
	cur := p.Obj.V
	for _, i := range p.Path {
		cur = childOf(cur, i)
	}
	a, ok := cur.(*ArrayV)
	if !ok {
		panic(fmt.Sprintf("arrayAt: not an array: %T", cur))
	}
	return a
}

func (st *State) load(p Ptr) Value {
	if p.SymIdx != nil {
		arr := st.arrayAt(Ptr{Obj: p.Obj, Path: p.Path})
		if v, ok := st.trySymRead(arr, p.SymIdx); ok {
			return v
		}
		// elements cannot be merged (pointers, interfaces ...): fork over the index values
		return st.load(st.concretizePtr(p))
	}
	get, _ := st.cellRef(p)
	st.raceAccess(p, false)
	return copyValue(get())
}

func (st *State) store(p Ptr, v Value) {
	if p.Obj != nil && p.Obj.Frozen {
		panic(st.violation("write to immutable (string) data", nil))
	}
	if p.SymIdx != nil {
		arr := st.arrayAt(Ptr{Obj: p.Obj, Path: p.Path})
		if st.trySymWrite(arr, p.SymIdx, v) {
			return
		}
		// elements cannot be merged (pointers, channels ...): fork over the index values
		st.store(st.concretizePtr(p), v)
		return
	}
	_, set := st.cellRef(p)
	st.raceAccess(p, true)
	set(copyValue(v))
}

// idxBound returns an exclusive upper bound (<= n) for a symbolic index, asking
// the solver only for large arrays.
func (st *State) idxBound(idx *Term, n int) int {
	if idx.RHi < uint64(n) {
		return int(idx.RHi) + 1
	}
	if n <= 64 {
		return n
	}
	for _, c := range []int{16, 64, 256, 1024, 4096, 16384} {
		if c >= n {
			break
		}
		r, _ := st.w.solver.Check(st.pc, st.tt.Cmp(OpULe, st.tt.Const(uint64(c), idx.W), idx), false, "feas")
		if r == Unsat {
			return c
		}
	}
	return n
}

func (st *State) trySymRead(arr *ArrayV, idx *Term) (v Value, ok bool) {
	defer func() {
		if r := recover(); r != nil {
			if _, is := r.(needFork); is {
				ok = false
				return
			}
			panic(r)
		}
	}()
	return st.symRead(arr, idx), true
}

// symRead builds an ite-chain over the elements; the index is already bounds-checked.
func (st *State) symRead(arr *ArrayV, idx *Term) Value {
	if idx.IsConst() {
		return copyValue(arr.get(int(idx.Val)))
	}
	n := st.idxBound(idx, len(arr.E))
	if n == 0 {
		panic(st.violation("index into empty array", nil))
	}
	res := arr.get(n - 1)
	for i := n - 2; i >= 0; i-- {
		c := st.tt.Eq(idx, st.tt.Const(uint64(i), idx.W))
		res = st.merge(c, arr.get(i), res)
	}
	return copyValue(res)
}

func (st *State) symWrite(arr *ArrayV, idx *Term, v Value) {
	if !st.trySymWrite(arr, idx, v) {
		panic(needFork{})
	}
}

// trySymWrite leaves the array untouched when the elements cannot be merged.
func (st *State) trySymWrite(arr *ArrayV, idx *Term, v Value) (ok bool) {
	if idx.IsConst() {
		arr.E[idx.Val] = copyValue(v)
		return true
	}
	n := st.idxBound(idx, len(arr.E))
	upd := make([]Value, n)
	defer func() {
		if r := recover(); r != nil {
			if _, is := r.(needFork); is {
				ok = false
				return
			}
			panic(r)
		}
	}()
	for i := 0; i < n; i++ {
		c := st.tt.Eq(idx, st.tt.Const(uint64(i), idx.W))
		upd[i] = st.merge(c, v, arr.get(i))
	}
	for i := 0; i < n; i++ {
		arr.E[i] = upd[i]
	}
	return true
}

// merge returns ite(c, a, b) for mergeable values.
func (st *State) merge(c *Term, a, b Value) Value {
	if c.IsTrue() {
		return a
	}
	if c.IsFalse() {
		return b
	}
	switch x := a.(type) {
	case *Term:
		return st.tt.Ite(c, x, b.(*Term))
	case *StructV:
		y := b.(*StructV)
		n := &StructV{F: make([]Value, len(x.F))}
		for i := range x.F {
			n.F[i] = st.merge(c, x.F[i], y.F[i])
		}
		return n
	case *ArrayV:
		y := b.(*ArrayV)
		n := &ArrayV{E: make([]Value, len(x.E))}
		for i := range x.E {
			n.E[i] = st.merge(c, x.get(i), y.get(i))
		}
		return n
	case Ptr:
		y := b.(Ptr)
		if x.key() == y.key() && x.SymIdx == y.SymIdx {
			return x
		}
	case StrV:
		y := b.(StrV)
		if x.Arr.key() == y.Arr.key() {
			return StrV{Arr: x.Arr, Off: st.tt.Ite(c, x.Off, y.Off), Len: st.tt.Ite(c, x.Len, y.Len)}
		}
	case SliceV:
		y := b.(SliceV)
		if x.Arr.key() == y.Arr.key() {
			return SliceV{Arr: x.Arr, Off: st.tt.Ite(c, x.Off, y.Off), Len: st.tt.Ite(c, x.Len, y.Len), Cap: st.tt.Ite(c, x.Cap, y.Cap)}
		}
	case IfaceV:
		y := b.(IfaceV)
		if x.T == nil && y.T == nil {
			return x
		}
		if x.T != nil && y.T != nil && types.Identical(x.T, y.T) {
			if mv, ok := st.tryMerge(c, x.V, y.V); ok {
				return IfaceV{T: x.T, V: mv}
			}
		}
	case FloatV:
		if x == b.(FloatV) {
			return x
		}
	}
	panic(needFork{})
}

type needFork struct{}

func (st *State) tryMerge(c *Term, a, b Value) (v Value, ok bool) {
	defer func() {
		if r := recover(); r != nil {
			if _, is := r.(needFork); is {
				ok = false
				return
			}
			panic(r)
		}
	}()
	return st.merge(c, a, b), true
}

func (st *State) bytesObject(bs []*Term, site string) *Object {
	a := &ArrayV{E: make([]Value, len(bs))}
	for i, b := range bs {
		a.E[i] = b
	}
	return st.newObject(a, nil, site)
}

func (st *State) constString(s string) StrV {
	if v, ok := st.strCache[s]; ok {
		return v
	}
	a := &ArrayV{E: make([]Value, len(s))}
	for i := 0; i < len(s); i++ {
		a.E[i] = st.tt.Const(uint64(s[i]), 8)
	}
	o := st.newObject(a, nil, "const string")
	o.Frozen = true
	v := StrV{Arr: Ptr{Obj: o}, Off: st.tt.Const(0, 64), Len: st.tt.Const(uint64(len(s)), 64)}
	st.strCache[s] = v
	return v
}

// concreteString returns the Go string if length and all bytes are constants.
func (st *State) concreteString(s StrV) (string, bool) {
	if !s.Len.IsConst() || !s.Off.IsConst() {
		return "", false
	}
	if s.Len.Val == 0 {
		return "", true
	}
	arr := st.arrayAt(s.Arr)
	b := make([]byte, s.Len.Val)
	for i := range b {
		t := arr.get(int(s.Off.Val)+i).(*Term)
		if !t.IsConst() {
			return "", false
		}
		b[i] = byte(t.Val)
	}
	return string(b), true
}

func describe(v Value) string {
	switch x := v.(type) {
	case nil:
		return "<nil>"
	case *Term:
		return x.String()
	case Ptr:
		return "&" + x.key()
	case StrV:
		return fmt.Sprintf("str(%s,off=%s,len=%s)", x.Arr.key(), x.Off, x.Len)
	case SliceV:
		return fmt.Sprintf("slice(%s,off=%s,len=%s,cap=%s)", x.Arr.key(), x.Off, x.Len, x.Cap)
	case IfaceV:
		if x.T == nil {
			return "iface(nil)"
		}
		return fmt.Sprintf("iface(%s:%s)", x.T, describe(x.V))
	case *StructV:
		var parts []string
		for _, f := range x.F {
			parts = append(parts, describe(f))
		}
		return "{" + strings.Join(parts, ",") + "}"
	}
	return fmt.Sprintf("%T", v)
}
