package main

// Vector clocks and a FastTrack-style happens-before race check on heap cells.

import "fmt"

type shadowCell struct {
	wThread int
	wClock  int
	wSite   string
	reads   map[int]int // thread -> clock
	rSites  map[int]string
}

func (st *State) vcOf(t *Thread) []int {
	for len(t.vc) <= t.id {
		t.vc = append(t.vc, 0)
	}
	if t.vc[t.id] == 0 {
		t.vc[t.id] = 1
	}
	return t.vc
}

func (st *State) vcCopy(t *Thread) []int {
	if !st.eng.cfg.Race {
		return nil
	}
	return append([]int{}, st.vcOf(t)...)
}

func (st *State) vcTick(t *Thread) {
	if !st.eng.cfg.Race {
		return
	}
	st.vcOf(t)[t.id]++
}

func vcMax(a, b []int) []int {
	if len(b) > len(a) {
		a, b = b, a
	}
	out := append([]int{}, a...)
	for i, v := range b {
		if v > out[i] {
			out[i] = v
		}
	}
	return out
}

func (st *State) vcJoin(t *Thread, other []int) {
	if !st.eng.cfg.Race || other == nil {
		return
	}
	st.vcOf(t)
	t.vc = vcMax(t.vc, other)
}

// hbEdge: everything a did so far happens before what b does next.
func (st *State) hbEdge(a, b *Thread) {
	if !st.eng.cfg.Race {
		return
	}
	st.vcJoin(b, st.vcCopy(a))
	st.vcTick(a)
}

func (st *State) raceAccess(p Ptr, write bool) {
	if !st.eng.cfg.Race || p.Obj == nil || p.Obj.Env || st.cur == nil || len(st.thrs) < 2 || st.inAtomic > 0 {
		// accesses inside atomic environment steps (harness sockets, servers) and atomic library calls are not
		// race-checked and create no happens-before edges: a socket is not a Go synchronisation primitive
		return
	}
	t := st.cur
	vc := st.vcOf(t)
	k := p.key()
	c := st.shadow[k]
	if c == nil {
		c = &shadowCell{wThread: -1, reads: map[int]int{}, rSites: map[int]string{}}
		st.shadow[k] = c
	}
	happensBefore := func(th, clk int) bool {
		if th < 0 || th == t.id {
			return true
		}
		return th < len(vc) && vc[th] >= clk
	}
	if !happensBefore(c.wThread, c.wClock) {
		panic(st.violation(fmt.Sprintf("data race: %s at %s vs. write at %s", rw(write), st.curSite(), c.wSite), nil))
	}
	if write {
		for th, clk := range c.reads {
			if !happensBefore(th, clk) {
				panic(st.violation(fmt.Sprintf("data race: write at %s vs. read at %s", st.curSite(), c.rSites[th]), nil))
			}
		}
		c.wThread, c.wClock, c.wSite = t.id, vc[t.id], st.curSite()
		c.reads = map[int]int{}
		c.rSites = map[int]string{}
	} else {
		c.reads[t.id] = vc[t.id]
		c.rSites[t.id] = st.curSite()
	}
}

func rw(w bool) string {
	if w {
		return "write"
	}
	return "read"
}
