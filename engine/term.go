package main

// Hash-consed SMT terms over Bool and fixed-width bit-vectors (width 1..64),
// with constant folding so that concrete computation never reaches a solver.

import (
	"fmt"
	"math/bits"
	"sort"
	"strings"
)

type Op uint8

const (
	OpConst Op = iota
	OpVar
	OpNot
	OpAnd
	OpOr
	OpIte
	OpEq
	OpAdd
	OpSub
	OpMul
	OpUDiv
	OpURem
	OpSDiv
	OpSRem
	OpBAnd
	OpBOr
	OpBXor
	OpBNot
	OpNeg
	OpShl
	OpLShr
	OpAShr
	OpULt
	OpULe
	OpSLt
	OpSLe
	OpExtract // hi, lo in aux
	OpZExt    // target width = W
	OpSExt
	OpConcat
	OpUF // name in Name, args
)

var opSMT = map[Op]string{
	OpNot: "not", OpAnd: "and", OpOr: "or", OpIte: "ite", OpEq: "=",
	OpAdd: "bvadd", OpSub: "bvsub", OpMul: "bvmul", OpUDiv: "bvudiv", OpURem: "bvurem",
	OpSDiv: "bvsdiv", OpSRem: "bvsrem", OpBAnd: "bvand", OpBOr: "bvor", OpBXor: "bvxor",
	OpBNot: "bvnot", OpNeg: "bvneg", OpShl: "bvshl", OpLShr: "bvlshr", OpAShr: "bvashr",
	OpULt: "bvult", OpULe: "bvule", OpSLt: "bvslt", OpSLe: "bvsle", OpConcat: "concat",
}

// Term: W == 0 means Bool, otherwise a bit-vector of width W (1..64).
type Term struct {
	ID   int
	Op   Op
	W    int
	Args []*Term
	Val  uint64 // OpConst: value (Bool: 0/1)
	Name string // OpVar / OpUF
	Hi   int    // OpExtract
	Lo   int
	RLo  uint64 // unsigned value range (bit-vectors only)
	RHi  uint64
}

func (t *Term) IsConst() bool { return t.Op == OpConst }
func (t *Term) IsBool() bool  { return t.W == 0 }
func (t *Term) IsTrue() bool  { return t.Op == OpConst && t.W == 0 && t.Val == 1 }
func (t *Term) IsFalse() bool { return t.Op == OpConst && t.W == 0 && t.Val == 0 }

func mask(w int) uint64 {
	if w >= 64 {
		return ^uint64(0)
	}
	return (uint64(1) << uint(w)) - 1
}

func sext64(v uint64, w int) int64 {
	if w >= 64 {
		return int64(v)
	}
	sh := uint(64 - w)
	return int64(v<<sh) >> sh
}

type TermTable struct {
	tab   map[string]*Term
	n     int
	True  *Term
	False *Term
	ufs   map[string]ufSig
}

type ufSig struct {
	args []int
	ret  int
}

func NewTermTable() *TermTable {
	tt := &TermTable{tab: map[string]*Term{}, ufs: map[string]ufSig{}}
	tt.True = tt.Bool(true)
	tt.False = tt.Bool(false)
	return tt
}

func (tt *TermTable) intern(t *Term) *Term {
	var sb strings.Builder
	fmt.Fprintf(&sb, "%d:%d:%d:%d:%d:%s", t.Op, t.W, t.Val, t.Hi, t.Lo, t.Name)
	for _, a := range t.Args {
		fmt.Fprintf(&sb, ",%d", a.ID)
	}
	k := sb.String()
	if x, ok := tt.tab[k]; ok {
		return x
	}
	tt.n++
	t.ID = tt.n
	tt.tab[k] = t
	t.computeRange()
	return t
}

// computeRange derives a sound unsigned interval for the term's value.
func (t *Term) computeRange() {
	if t.W == 0 {
		t.RLo, t.RHi = 0, 1
		return
	}
	m := mask(t.W)
	t.RLo, t.RHi = 0, m
	switch t.Op {
	case OpConst:
		t.RLo, t.RHi = t.Val, t.Val
	case OpZExt:
		t.RLo, t.RHi = t.Args[0].RLo, t.Args[0].RHi
	case OpSExt:
		a := t.Args[0]
		if a.RHi < uint64(1)<<uint(a.W-1) {
			t.RLo, t.RHi = a.RLo, a.RHi
		}
	case OpExtract:
		a := t.Args[0]
		if t.Lo == 0 && a.RHi <= m {
			t.RLo, t.RHi = a.RLo, a.RHi
		}
	case OpAdd:
		a, b := t.Args[0], t.Args[1]
		hi, c := bits.Add64(a.RHi, b.RHi, 0)
		if c == 0 && hi <= m {
			t.RLo, t.RHi = a.RLo+b.RLo, hi
		}
	case OpSub:
		a, b := t.Args[0], t.Args[1]
		if a.RLo >= b.RHi {
			t.RLo, t.RHi = a.RLo-b.RHi, a.RHi-b.RLo
		}
	case OpMul:
		a, b := t.Args[0], t.Args[1]
		h, l := bits.Mul64(a.RHi, b.RHi)
		if h == 0 && l <= m {
			t.RLo, t.RHi = a.RLo*b.RLo, l
		}
	case OpUDiv:
		a, b := t.Args[0], t.Args[1]
		if b.RLo > 0 {
			t.RLo, t.RHi = a.RLo/b.RHi, a.RHi/b.RLo
		}
	case OpURem:
		a, b := t.Args[0], t.Args[1]
		if b.RLo > 0 {
			t.RHi = a.RHi
			if b.RHi-1 < t.RHi {
				t.RHi = b.RHi - 1
			}
		}
	case OpBAnd:
		a, b := t.Args[0], t.Args[1]
		t.RHi = a.RHi
		if b.RHi < t.RHi {
			t.RHi = b.RHi
		}
	case OpBOr, OpBXor:
		a, b := t.Args[0], t.Args[1]
		x := a.RHi
		if b.RHi > x {
			x = b.RHi
		}
		n := bits.Len64(x)
		if n < 64 {
			t.RHi = (uint64(1) << uint(n)) - 1
		}
		if t.Op == OpBOr {
			t.RLo = a.RLo
			if b.RLo > t.RLo {
				t.RLo = b.RLo
			}
		}
	case OpLShr:
		a, b := t.Args[0], t.Args[1]
		if b.IsConst() && b.Val < 64 {
			t.RLo, t.RHi = a.RLo>>b.Val, a.RHi>>b.Val
		} else {
			t.RHi = a.RHi
		}
	case OpShl:
		a, b := t.Args[0], t.Args[1]
		if b.IsConst() && b.Val < 64 && bits.Len64(a.RHi)+int(b.Val) <= t.W {
			t.RLo, t.RHi = a.RLo<<b.Val, a.RHi<<b.Val
		}
	case OpIte:
		a, b := t.Args[1], t.Args[2]
		t.RLo, t.RHi = a.RLo, a.RHi
		if b.RLo < t.RLo {
			t.RLo = b.RLo
		}
		if b.RHi > t.RHi {
			t.RHi = b.RHi
		}
	case OpConcat:
		a, b := t.Args[0], t.Args[1]
		t.RLo = a.RLo<<uint(b.W) | b.RLo
		t.RHi = a.RHi<<uint(b.W) | b.RHi
		if a.RLo != a.RHi {
			t.RLo = a.RLo << uint(b.W)
			t.RHi = a.RHi<<uint(b.W) | mask(b.W)
		}
	}
}

func (tt *TermTable) Bool(b bool) *Term {
	v := uint64(0)
	if b {
		v = 1
	}
	return tt.intern(&Term{Op: OpConst, W: 0, Val: v})
}

func (tt *TermTable) Const(v uint64, w int) *Term {
	if w == 0 {
		return tt.Bool(v != 0)
	}
	return tt.intern(&Term{Op: OpConst, W: w, Val: v & mask(w)})
}

func (tt *TermTable) Var(name string, w int) *Term {
	return tt.intern(&Term{Op: OpVar, W: w, Name: name})
}

func (tt *TermTable) UF(name string, retW int, args ...*Term) *Term {
	if _, ok := tt.ufs[name]; !ok {
		sig := ufSig{ret: retW}
		for _, a := range args {
			sig.args = append(sig.args, a.W)
		}
		tt.ufs[name] = sig
	}
	return tt.intern(&Term{Op: OpUF, W: retW, Name: name, Args: args})
}

func (tt *TermTable) Not(a *Term) *Term {
	if a.IsConst() {
		return tt.Bool(a.Val == 0)
	}
	if a.Op == OpNot {
		return a.Args[0]
	}
	return tt.intern(&Term{Op: OpNot, W: 0, Args: []*Term{a}})
}

func (tt *TermTable) And(a, b *Term) *Term {
	if a.IsConst() {
		if a.Val == 0 {
			return a
		}
		return b
	}
	if b.IsConst() {
		if b.Val == 0 {
			return b
		}
		return a
	}
	if a == b {
		return a
	}
	if a.ID > b.ID {
		a, b = b, a
	}
	return tt.intern(&Term{Op: OpAnd, W: 0, Args: []*Term{a, b}})
}

func (tt *TermTable) Or(a, b *Term) *Term {
	if a.IsConst() {
		if a.Val == 1 {
			return a
		}
		return b
	}
	if b.IsConst() {
		if b.Val == 1 {
			return b
		}
		return a
	}
	if a == b {
		return a
	}
	if a.ID > b.ID {
		a, b = b, a
	}
	return tt.intern(&Term{Op: OpOr, W: 0, Args: []*Term{a, b}})
}

func (tt *TermTable) Implies(a, b *Term) *Term { return tt.Or(tt.Not(a), b) }

func (tt *TermTable) Ite(c, a, b *Term) *Term {
	if c.IsConst() {
		if c.Val == 1 {
			return a
		}
		return b
	}
	if a == b {
		return a
	}
	if a.W != b.W {
		panic(fmt.Sprintf("ite sort mismatch %d %d", a.W, b.W))
	}
	if a.W == 0 {
		if a.IsConst() && b.IsConst() {
			if a.Val == 1 {
				return c
			}
			return tt.Not(c)
		}
		if a.IsTrue() {
			return tt.Or(c, b)
		}
		if a.IsFalse() {
			return tt.And(tt.Not(c), b)
		}
		if b.IsTrue() {
			return tt.Or(tt.Not(c), a)
		}
		if b.IsFalse() {
			return tt.And(c, a)
		}
	}
	return tt.intern(&Term{Op: OpIte, W: a.W, Args: []*Term{c, a, b}})
}

func (tt *TermTable) Eq(a, b *Term) *Term {
	if a.W != b.W {
		panic(fmt.Sprintf("eq sort mismatch %d %d (%s vs %s)", a.W, b.W, a, b))
	}
	if a == b {
		return tt.True
	}
	if a.IsConst() && b.IsConst() {
		return tt.Bool(a.Val == b.Val)
	}
	if a.W > 0 && (a.RHi < b.RLo || b.RHi < a.RLo) {
		return tt.False
	}
	if a.W == 0 {
		if a.IsConst() {
			if a.Val == 1 {
				return b
			}
			return tt.Not(b)
		}
		if b.IsConst() {
			if b.Val == 1 {
				return a
			}
			return tt.Not(a)
		}
	}
	// ite(c, k1, k2) == k  with constants
	if b.IsConst() && a.Op == OpIte && a.Args[1].IsConst() && a.Args[2].IsConst() {
		return tt.Ite(a.Args[0], tt.Bool(a.Args[1].Val == b.Val), tt.Bool(a.Args[2].Val == b.Val))
	}
	if a.IsConst() && b.Op == OpIte && b.Args[1].IsConst() && b.Args[2].IsConst() {
		return tt.Ite(b.Args[0], tt.Bool(b.Args[1].Val == a.Val), tt.Bool(b.Args[2].Val == a.Val))
	}
	if a.ID > b.ID {
		a, b = b, a
	}
	return tt.intern(&Term{Op: OpEq, W: 0, Args: []*Term{a, b}})
}

func foldBin(op Op, x, y uint64, w int) (uint64, bool) {
	m := mask(w)
	switch op {
	case OpAdd:
		return (x + y) & m, true
	case OpSub:
		return (x - y) & m, true
	case OpMul:
		return (x * y) & m, true
	case OpUDiv:
		if y == 0 {
			return m, true
		}
		return x / y, true
	case OpURem:
		if y == 0 {
			return x, true
		}
		return x % y, true
	case OpSDiv:
		sx, sy := sext64(x, w), sext64(y, w)
		if sy == 0 {
			if sx < 0 {
				return 1, true
			}
			return m, true
		}
		if sy == -1 {
			return uint64(-sx) & m, true
		}
		return uint64(sx/sy) & m, true
	case OpSRem:
		sx, sy := sext64(x, w), sext64(y, w)
		if sy == 0 {
			return x, true
		}
		if sy == -1 {
			return 0, true
		}
		return uint64(sx%sy) & m, true
	case OpBAnd:
		return x & y, true
	case OpBOr:
		return x | y, true
	case OpBXor:
		return x ^ y, true
	case OpShl:
		if y >= uint64(w) {
			return 0, true
		}
		return (x << y) & m, true
	case OpLShr:
		if y >= uint64(w) {
			return 0, true
		}
		return x >> y, true
	case OpAShr:
		sx := sext64(x, w)
		if y >= uint64(w) {
			if sx < 0 {
				return m, true
			}
			return 0, true
		}
		return uint64(sx>>y) & m, true
	}
	return 0, false
}

func (tt *TermTable) Bin(op Op, a, b *Term) *Term {
	if a.W != b.W || a.W == 0 {
		panic(fmt.Sprintf("bin %v sort mismatch %d %d", opSMT[op], a.W, b.W))
	}
	w := a.W
	if a.IsConst() && b.IsConst() {
		if v, ok := foldBin(op, a.Val, b.Val, w); ok {
			return tt.Const(v, w)
		}
	}
	switch op {
	case OpUDiv, OpSDiv:
		// (x*C + y) / C = x  when y < C and nothing overflows (ranges)
		if b.IsConst() && b.Val > 1 && a.Op == OpAdd {
			for k := 0; k < 2; k++ {
				m, y := a.Args[k], a.Args[1-k]
				if m.Op == OpMul && m.Args[1].IsConst() && m.Args[1].Val == b.Val && y.RHi < b.Val {
					x := m.Args[0]
					hi, lo := bits.Mul64(x.RHi, b.Val)
					sum, c := bits.Add64(lo, y.RHi, 0)
					lim := mask(w)
					if op == OpSDiv {
						lim >>= 1
					}
					if hi == 0 && c == 0 && sum <= lim {
						return x
					}
				}
			}
		}
	case OpAdd:
		if a.IsConst() && a.Val == 0 {
			return b
		}
		if b.IsConst() && b.Val == 0 {
			return a
		}
		// (x + c1) + c2
		if b.IsConst() && a.Op == OpAdd && a.Args[1].IsConst() {
			return tt.Bin(OpAdd, a.Args[0], tt.Const(a.Args[1].Val+b.Val, w))
		}
		if a.IsConst() {
			a, b = b, a
		}
		if b.Op == OpNeg {
			return tt.Bin(OpSub, a, b.Args[0])
		}
		if a.Op == OpNeg {
			return tt.Bin(OpSub, b, a.Args[0])
		}
	case OpSub:
		if b.IsConst() && b.Val == 0 {
			return a
		}
		if a == b {
			return tt.Const(0, w)
		}
		if b.Op == OpSub && b.Args[0] == a { // a - (a - x) = x
			return b.Args[1]
		}
		if a.Op == OpAdd && a.Args[0] == b { // (b + x) - b = x
			return a.Args[1]
		}
		if a.Op == OpAdd && a.Args[1] == b { // (x + b) - b = x
			return a.Args[0]
		}
		if a.Op == OpSub && a.Args[0] == b { // (b - x) - b = -x
			return tt.Neg(a.Args[1])
		}
		if b.Op == OpAdd && b.Args[0] == a { // a - (a + x) = -x
			return tt.Neg(b.Args[1])
		}
		if b.Op == OpAdd && b.Args[1] == a { // a - (x + a) = -x
			return tt.Neg(b.Args[0])
		}
		if b.Op == OpNeg { // a - (-x) = a + x
			return tt.Bin(OpAdd, a, b.Args[0])
		}
		if b.IsConst() {
			return tt.Bin(OpAdd, a, tt.Const(-b.Val, w))
		}
	case OpMul:
		if a.IsConst() {
			a, b = b, a
		}
		if b.IsConst() {
			if b.Val == 0 {
				return b
			}
			if b.Val == 1 {
				return a
			}
		}
	case OpBAnd:
		if a.IsConst() {
			a, b = b, a
		}
		if b.IsConst() {
			if b.Val == 0 {
				return b
			}
			if b.Val == mask(w) {
				return a
			}
		}
		if a == b {
			return a
		}
	case OpBOr:
		if a.IsConst() {
			a, b = b, a
		}
		if b.IsConst() {
			if b.Val == 0 {
				return a
			}
			if b.Val == mask(w) {
				return b
			}
		}
		if a == b {
			return a
		}
	case OpBXor:
		if a.IsConst() {
			a, b = b, a
		}
		if b.IsConst() && b.Val == 0 {
			return a
		}
		if a == b {
			return tt.Const(0, w)
		}
	case OpShl, OpLShr, OpAShr:
		if b.IsConst() && b.Val == 0 {
			return a
		}
		if b.IsConst() && b.Val >= uint64(w) && op != OpAShr {
			return tt.Const(0, w)
		}
	}
	return tt.intern(&Term{Op: op, W: w, Args: []*Term{a, b}})
}

func (tt *TermTable) Cmp(op Op, a, b *Term) *Term {
	if a.W != b.W || a.W == 0 {
		panic(fmt.Sprintf("cmp sort mismatch %d %d", a.W, b.W))
	}
	if a.IsConst() && b.IsConst() {
		switch op {
		case OpULt:
			return tt.Bool(a.Val < b.Val)
		case OpULe:
			return tt.Bool(a.Val <= b.Val)
		case OpSLt:
			return tt.Bool(sext64(a.Val, a.W) < sext64(b.Val, a.W))
		case OpSLe:
			return tt.Bool(sext64(a.Val, a.W) <= sext64(b.Val, a.W))
		}
	}
	if a == b {
		return tt.Bool(op == OpULe || op == OpSLe)
	}
	{
		// interval reasoning; signed compares coincide with unsigned ones when both are non-negative
		half := uint64(1) << uint(a.W-1)
		uop := op
		if (op == OpSLt || op == OpSLe) && a.RHi < half && b.RHi < half {
			if op == OpSLt {
				uop = OpULt
			} else {
				uop = OpULe
			}
		}
		switch uop {
		case OpULt:
			if a.RHi < b.RLo {
				return tt.True
			}
			if a.RLo >= b.RHi {
				return tt.False
			}
		case OpULe:
			if a.RHi <= b.RLo {
				return tt.True
			}
			if a.RLo > b.RHi {
				return tt.False
			}
		}
	}
	if op == OpULt && b.IsConst() && b.Val == 0 {
		return tt.False
	}
	if op == OpULe && a.IsConst() && a.Val == 0 {
		return tt.True
	}
	// compare of ite-of-constants with constant
	if b.IsConst() && a.Op == OpIte && a.Args[1].IsConst() && a.Args[2].IsConst() {
		return tt.Ite(a.Args[0], tt.Cmp(op, a.Args[1], b), tt.Cmp(op, a.Args[2], b))
	}
	// zext(x) <u const where const > max(x)
	if (op == OpULt || op == OpSLt) && b.IsConst() && a.Op == OpZExt {
		iw := a.Args[0].W
		if iw < a.W && (op == OpULt || sext64(b.Val, a.W) >= 0) && b.Val > mask(iw) {
			return tt.True
		}
	}
	return tt.intern(&Term{Op: op, W: 0, Args: []*Term{a, b}})
}

// RawULt builds a <u b without any folding (used to state declared variable ranges).
func (tt *TermTable) RawULt(a, b *Term) *Term {
	return tt.intern(&Term{Op: OpULt, W: 0, Args: []*Term{a, b}})
}

func (tt *TermTable) BNot(a *Term) *Term {
	if a.IsConst() {
		return tt.Const(^a.Val, a.W)
	}
	if a.Op == OpBNot {
		return a.Args[0]
	}
	return tt.intern(&Term{Op: OpBNot, W: a.W, Args: []*Term{a}})
}

func (tt *TermTable) Neg(a *Term) *Term {
	if a.IsConst() {
		return tt.Const(-a.Val, a.W)
	}
	if a.Op == OpNeg {
		return a.Args[0]
	}
	return tt.intern(&Term{Op: OpNeg, W: a.W, Args: []*Term{a}})
}

func (tt *TermTable) Extract(a *Term, hi, lo int) *Term {
	if lo == 0 && hi == a.W-1 {
		return a
	}
	w := hi - lo + 1
	if a.IsConst() {
		return tt.Const(a.Val>>uint(lo), w)
	}
	if a.Op == OpZExt || a.Op == OpSExt {
		iw := a.Args[0].W
		if hi < iw {
			return tt.Extract(a.Args[0], hi, lo)
		}
		if a.Op == OpZExt && lo >= iw {
			return tt.Const(0, w)
		}
	}
	if a.Op == OpConcat {
		lw := a.Args[1].W
		if hi < lw {
			return tt.Extract(a.Args[1], hi, lo)
		}
		if lo >= lw {
			return tt.Extract(a.Args[0], hi-lw, lo-lw)
		}
	}
	if a.Op == OpExtract {
		return tt.Extract(a.Args[0], hi+a.Lo, lo+a.Lo)
	}
	if a.Op == OpIte && a.Args[1].IsConst() && a.Args[2].IsConst() {
		return tt.Ite(a.Args[0], tt.Extract(a.Args[1], hi, lo), tt.Extract(a.Args[2], hi, lo))
	}
	// extract of low bits distributes over bitwise ops / add / sub / mul / shl with const
	if lo == 0 {
		switch a.Op {
		case OpBAnd, OpBOr, OpBXor, OpAdd, OpSub, OpMul:
			x, y := a.Args[0], a.Args[1]
			if isNarrowable(x, w) && isNarrowable(y, w) {
				return tt.Bin(a.Op, tt.Extract(x, hi, 0), tt.Extract(y, hi, 0))
			}
		}
	}
	return tt.intern(&Term{Op: OpExtract, W: w, Args: []*Term{a}, Hi: hi, Lo: lo})
}

func isNarrowable(t *Term, w int) bool {
	if t.IsConst() {
		return true
	}
	if (t.Op == OpZExt || t.Op == OpSExt) && t.Args[0].W <= w {
		return true
	}
	return false
}

func (tt *TermTable) ZExt(a *Term, w int) *Term {
	if a.W == w {
		return a
	}
	if a.W > w {
		return tt.Extract(a, w-1, 0)
	}
	if a.IsConst() {
		return tt.Const(a.Val, w)
	}
	if a.Op == OpZExt {
		return tt.ZExt(a.Args[0], w)
	}
	if a.Op == OpIte && a.Args[1].IsConst() && a.Args[2].IsConst() {
		return tt.Ite(a.Args[0], tt.ZExt(a.Args[1], w), tt.ZExt(a.Args[2], w))
	}
	return tt.intern(&Term{Op: OpZExt, W: w, Args: []*Term{a}})
}

func (tt *TermTable) SExt(a *Term, w int) *Term {
	if a.W == w {
		return a
	}
	if a.W > w {
		return tt.Extract(a, w-1, 0)
	}
	if a.IsConst() {
		return tt.Const(uint64(sext64(a.Val, a.W)), w)
	}
	if a.Op == OpZExt { // zero-extended value is non-negative
		return tt.ZExt(a.Args[0], w)
	}
	if a.Op == OpIte && a.Args[1].IsConst() && a.Args[2].IsConst() {
		return tt.Ite(a.Args[0], tt.SExt(a.Args[1], w), tt.SExt(a.Args[2], w))
	}
	return tt.intern(&Term{Op: OpSExt, W: w, Args: []*Term{a}})
}

func (tt *TermTable) Concat(hi, lo *Term) *Term {
	w := hi.W + lo.W
	if w > 64 {
		panic("concat wider than 64")
	}
	if hi.IsConst() && lo.IsConst() {
		return tt.Const(hi.Val<<uint(lo.W)|lo.Val, w)
	}
	return tt.intern(&Term{Op: OpConcat, W: w, Args: []*Term{hi, lo}})
}

// ---------- printing ----------

func sortSMT(w int) string {
	if w == 0 {
		return "Bool"
	}
	return fmt.Sprintf("(_ BitVec %d)", w)
}

func constSMT(t *Term) string {
	if t.W == 0 {
		if t.Val == 1 {
			return "true"
		}
		return "false"
	}
	if t.W%4 == 0 {
		return fmt.Sprintf("#x%0*x", t.W/4, t.Val)
	}
	return fmt.Sprintf("#b%0*b", t.W, t.Val)
}

func (t *Term) ref() string {
	switch t.Op {
	case OpConst:
		return constSMT(t)
	case OpVar:
		return t.Name
	}
	return fmt.Sprintf("t%d", t.ID)
}

// body returns the SMT-LIB expression of this node with children by reference.
func (t *Term) body() string {
	switch t.Op {
	case OpConst, OpVar:
		return t.ref()
	case OpExtract:
		return fmt.Sprintf("((_ extract %d %d) %s)", t.Hi, t.Lo, t.Args[0].ref())
	case OpZExt:
		return fmt.Sprintf("((_ zero_extend %d) %s)", t.W-t.Args[0].W, t.Args[0].ref())
	case OpSExt:
		return fmt.Sprintf("((_ sign_extend %d) %s)", t.W-t.Args[0].W, t.Args[0].ref())
	case OpUF:
		if len(t.Args) == 0 {
			return t.Name
		}
		var sb strings.Builder
		sb.WriteString("(" + t.Name)
		for _, a := range t.Args {
			sb.WriteString(" " + a.ref())
		}
		sb.WriteString(")")
		return sb.String()
	}
	var sb strings.Builder
	sb.WriteString("(" + opSMT[t.Op])
	for _, a := range t.Args {
		sb.WriteString(" " + a.ref())
	}
	sb.WriteString(")")
	return sb.String()
}

func (t *Term) String() string {
	return t.pretty(0)
}

func (t *Term) pretty(depth int) string {
	if t.Op == OpConst {
		if t.W == 0 {
			return constSMT(t)
		}
		return fmt.Sprintf("%d", t.Val)
	}
	if t.Op == OpVar {
		return t.Name
	}
	if depth > 6 {
		return "…"
	}
	var sb strings.Builder
	name := opSMT[t.Op]
	switch t.Op {
	case OpExtract:
		name = fmt.Sprintf("extract[%d:%d]", t.Hi, t.Lo)
	case OpZExt:
		name = fmt.Sprintf("zext%d", t.W)
	case OpSExt:
		name = fmt.Sprintf("sext%d", t.W)
	case OpUF:
		name = t.Name
	}
	sb.WriteString("(" + name)
	for _, a := range t.Args {
		sb.WriteString(" " + a.pretty(depth+1))
	}
	sb.WriteString(")")
	return sb.String()
}

// collectVars returns the variables occurring in the terms (sorted by name).
func collectVars(ts []*Term) []*Term {
	seen := map[int]bool{}
	var out []*Term
	var rec func(t *Term)
	rec = func(t *Term) {
		if seen[t.ID] {
			return
		}
		seen[t.ID] = true
		if t.Op == OpVar {
			out = append(out, t)
		}
		for _, a := range t.Args {
			rec(a)
		}
	}
	for _, t := range ts {
		rec(t)
	}
	sort.Slice(out, func(i, j int) bool { return out[i].Name < out[j].Name })
	return out
}

// Eval evaluates t under a model (variable name -> value). UF applications are
// looked up in ufModel (key: name(args...)); missing entries evaluate to 0.
type Model struct {
	Vars map[string]uint64
	UFs  map[string]uint64
}

func (m *Model) Eval(t *Term) uint64 {
	memo := map[int]uint64{}
	var ev func(t *Term) uint64
	ev = func(t *Term) uint64 {
		if v, ok := memo[t.ID]; ok {
			return v
		}
		var r uint64
		switch t.Op {
		case OpConst:
			r = t.Val
		case OpVar:
			r = m.Vars[t.Name] & mask64(t.W)
		case OpNot:
			r = 1 - ev(t.Args[0])
		case OpAnd:
			r = ev(t.Args[0]) & ev(t.Args[1])
		case OpOr:
			r = ev(t.Args[0]) | ev(t.Args[1])
		case OpIte:
			if ev(t.Args[0]) == 1 {
				r = ev(t.Args[1])
			} else {
				r = ev(t.Args[2])
			}
		case OpEq:
			if ev(t.Args[0]) == ev(t.Args[1]) {
				r = 1
			}
		case OpULt, OpULe, OpSLt, OpSLe:
			a, b := ev(t.Args[0]), ev(t.Args[1])
			w := t.Args[0].W
			var c bool
			switch t.Op {
			case OpULt:
				c = a < b
			case OpULe:
				c = a <= b
			case OpSLt:
				c = sext64(a, w) < sext64(b, w)
			case OpSLe:
				c = sext64(a, w) <= sext64(b, w)
			}
			if c {
				r = 1
			}
		case OpBNot:
			r = ^ev(t.Args[0]) & mask(t.W)
		case OpNeg:
			r = -ev(t.Args[0]) & mask(t.W)
		case OpExtract:
			r = (ev(t.Args[0]) >> uint(t.Lo)) & mask(t.W)
		case OpZExt:
			r = ev(t.Args[0])
		case OpSExt:
			r = uint64(sext64(ev(t.Args[0]), t.Args[0].W)) & mask(t.W)
		case OpConcat:
			r = ev(t.Args[0])<<uint(t.Args[1].W) | ev(t.Args[1])
		case OpUF:
			key := t.Name + "("
			for i, a := range t.Args {
				if i > 0 {
					key += ","
				}
				key += fmt.Sprint(ev(a))
			}
			key += ")"
			r = m.UFs[key] & mask64(t.W)
		default:
			v, ok := foldBin(t.Op, ev(t.Args[0]), ev(t.Args[1]), t.W)
			if !ok {
				panic("eval: unknown op")
			}
			r = v
		}
		memo[t.ID] = r
		return r
	}
	return ev(t)
}

func mask64(w int) uint64 {
	if w == 0 {
		return 1
	}
	return mask(w)
}

