package main

// Threads, channels, select, sync primitives and the bounded-preemption scheduler.

import (
	"fmt"
	"go/types"

	"golang.org/x/tools/go/ssa"
)

type ChanObj struct {
	id     int
	cap    int
	buf    []Value
	closed bool
	elem   types.Type
	// vector clocks for happens-before
	sendVC [][]int
	closeVC []int
	timer  *timerObj
}

type chanCase struct {
	ch   *ChanObj
	send bool
	val  Value
}

type syncOp struct {
	kind       string
	blocked    bool // false: arrived (always enabled); true: parked as a waiter
	cases      []chanCase
	hasDefault bool
	enabled    func() bool // for blocked non-channel ops
	completed  bool        // completed by a partner
	fired      int
	recvVal    Value
	recvOk     bool
	granted    bool
}

func (st *State) newChan(cap int, elem types.Type) *ChanObj {
	st.nObj++
	return &ChanObj{id: st.nObj, cap: cap, elem: elem}
}

func (st *State) multi() bool {
	if st.inAtomic > 0 {
		return false
	}
	return len(st.thrs) > 1 || st.eng.cfg.Threads
}

// syncPoint implements the yield protocol. It returns true when the calling
// instruction may perform its operation now.
func (st *State) syncPoint(th *Thread, kind string) bool {
	if !st.multi() {
		return true
	}
	if th.pending != nil && th.pending.granted {
		return true
	}
	if th.pending == nil {
		th.pending = &syncOp{kind: kind}
	}
	return false
}

func (st *State) opDone(th *Thread) { th.pending = nil }

// blockOn parks the thread until enabled() holds.
func (st *State) blockOn(th *Thread, enabled func() bool) stepStatus {
	if !st.multi() {
		panic(st.violation("deadlock: blocking operation can never proceed ("+st.curSite()+")", nil))
	}
	th.pending.blocked = true
	th.pending.granted = false
	th.pending.enabled = enabled
	return stBlock
}

// parkedPartner finds threads blocked on ch with the given direction.
func (st *State) parkedPartners(ch *ChanObj, wantSend bool, except *Thread) []*Thread {
	var out []*Thread
	for _, t := range st.thrs {
		if t == except || t.done || t.pending == nil || !t.pending.blocked || t.pending.completed {
			continue
		}
		for _, c := range t.pending.cases {
			if c.ch == ch && c.send == wantSend {
				out = append(out, t)
				break
			}
		}
	}
	return out
}

func (st *State) pickPartner(ps []*Thread) *Thread {
	if len(ps) == 1 {
		return ps[0]
	}
	alts := make([]int64, len(ps))
	for i := range ps {
		alts[i] = int64(i)
	}
	return ps[st.decide("partner", alts)]
}

func (st *State) caseIndex(t *Thread, ch *ChanObj, send bool) int {
	for i, c := range t.pending.cases {
		if c.ch == ch && c.send == send {
			return i
		}
	}
	return -1
}

func (st *State) canSend(ch *ChanObj, th *Thread) bool {
	if ch == nil {
		return false
	}
	if ch.closed {
		return true // will panic
	}
	if len(ch.buf) < ch.cap {
		return true
	}
	return len(st.parkedPartners(ch, false, th)) > 0
}

func (st *State) canRecv(ch *ChanObj, th *Thread) bool {
	if ch == nil {
		return false
	}
	if len(ch.buf) > 0 || ch.closed {
		return true
	}
	return len(st.parkedPartners(ch, true, th)) > 0
}

func (st *State) doSend(th *Thread, ch *ChanObj, v Value) {
	if ch.closed {
		panic(st.violation("send on closed channel", nil))
	}
	if rs := st.parkedPartners(ch, false, th); len(rs) > 0 && len(ch.buf) == 0 {
		r := st.pickPartner(rs)
		r.pending.completed = true
		r.pending.fired = st.caseIndex(r, ch, false)
		r.pending.recvVal = copyValue(v)
		r.pending.recvOk = true
		st.hbEdge(th, r)
		return
	}
	ch.buf = append(ch.buf, copyValue(v))
	ch.sendVC = append(ch.sendVC, st.vcCopy(th))
}

func (st *State) doRecv(th *Thread, ch *ChanObj) (Value, bool) {
	if len(ch.buf) > 0 {
		v := ch.buf[0]
		ch.buf = ch.buf[1:]
		if len(ch.sendVC) > 0 {
			st.vcJoin(th, ch.sendVC[0])
			ch.sendVC = ch.sendVC[1:]
		}
		// a sender parked on a full buffer can now complete
		if ss := st.parkedPartners(ch, true, th); len(ss) > 0 {
			s := st.pickPartner(ss)
			i := st.caseIndex(s, ch, true)
			ch.buf = append(ch.buf, copyValue(s.pending.cases[i].val))
			ch.sendVC = append(ch.sendVC, st.vcCopy(s))
			s.pending.completed = true
			s.pending.fired = i
		}
		return v, true
	}
	if ss := st.parkedPartners(ch, true, th); len(ss) > 0 {
		s := st.pickPartner(ss)
		i := st.caseIndex(s, ch, true)
		s.pending.completed = true
		s.pending.fired = i
		st.hbEdge(s, th)
		return copyValue(s.pending.cases[i].val), true
	}
	if ch.closed {
		st.vcJoin(th, ch.closeVC)
		return st.zero(ch.elem), false
	}
	panic("doRecv: not ready")
}

func (st *State) chanClose(th *Thread, c ChanV) {
	if c.C == nil {
		panic(st.violation("close of nil channel", nil))
	}
	if c.C.closed {
		panic(st.violation("close of closed channel", nil))
	}
	if len(st.parkedPartners(c.C, true, th)) > 0 {
		panic(st.violation("close of channel with blocked sender (send on closed channel)", nil))
	}
	c.C.closed = true
	c.C.closeVC = st.vcCopy(th)
}

func (st *State) execSend(th *Thread, fr *Frame, x *ssa.Send) stepStatus {
	ch := st.eval(fr, x.Chan).(ChanV).C
	if !st.syncPoint(th, "send") {
		return stYield
	}
	if th.pending != nil && th.pending.completed {
		st.opDone(th)
		return stNext
	}
	if ch == nil {
		if th.pending == nil {
			panic(st.violation("deadlock: send on nil channel", nil))
		}
		return st.blockOn(th, func() bool { return false })
	}
	if st.canSend(ch, th) {
		st.doSend(th, ch, st.eval(fr, x.X))
		st.opDone(th)
		return stNext
	}
	if th.pending == nil {
		panic(st.violation("deadlock: send can never proceed", nil))
	}
	th.pending.cases = []chanCase{{ch: ch, send: true, val: st.eval(fr, x.X)}}
	return st.blockOn(th, func() bool { return th.pending.completed || st.canSend(ch, th) })
}

func (st *State) execRecv(th *Thread, fr *Frame, x *ssa.UnOp) stepStatus {
	ch := st.eval(fr, x.X).(ChanV).C
	if !st.syncPoint(th, "recv") {
		return stYield
	}
	set := func(v Value, ok bool) {
		if x.CommaOk {
			st.setLocal(fr, x, TupleV{v, st.tt.Bool(ok)})
		} else {
			st.setLocal(fr, x, v)
		}
	}
	if th.pending != nil && th.pending.completed {
		set(th.pending.recvVal, th.pending.recvOk)
		st.opDone(th)
		return stNext
	}
	if ch == nil {
		if th.pending == nil {
			panic(st.violation("deadlock: receive on nil channel", nil))
		}
		return st.blockOn(th, func() bool { return false })
	}
	if st.canRecv(ch, th) {
		v, ok := st.doRecv(th, ch)
		set(v, ok)
		st.opDone(th)
		return stNext
	}
	if th.pending == nil {
		panic(st.violation("deadlock: receive can never proceed", nil))
	}
	th.pending.cases = []chanCase{{ch: ch, send: false}}
	return st.blockOn(th, func() bool { return th.pending.completed || st.canRecv(ch, th) })
}

func (st *State) execSelect(th *Thread, fr *Frame, x *ssa.Select) stepStatus {
	if !st.syncPoint(th, "select") {
		return stYield
	}
	tt := st.tt
	cases := make([]chanCase, len(x.States))
	for i, s := range x.States {
		cases[i].ch = st.eval(fr, s.Chan).(ChanV).C
		if s.Dir == types.SendOnly {
			cases[i].send = true
			cases[i].val = st.eval(fr, s.Send)
		}
	}
	// result tuple: (index, recvOk, recv_0 ... recv_n-1) for receive cases only
	result := func(idx int, rv Value, ok bool) {
		tv := TupleV{tt.Const(uint64(int64(idx)), 64), tt.Bool(ok)}
		for i, s := range x.States {
			if s.Dir == types.RecvOnly {
				if i == idx {
					tv = append(tv, rv)
				} else {
					tv = append(tv, st.zero(s.Chan.Type().Underlying().(*types.Chan).Elem()))
				}
			}
		}
		st.setLocal(fr, x, tv)
	}
	if th.pending != nil && th.pending.completed {
		i := th.pending.fired
		if cases[i].send {
			result(i, nil, false)
		} else {
			result(i, th.pending.recvVal, th.pending.recvOk)
		}
		st.opDone(th)
		return stNext
	}
	var ready []int64
	for i, c := range cases {
		if c.send && st.canSend(c.ch, th) || !c.send && st.canRecv(c.ch, th) {
			ready = append(ready, int64(i))
		}
	}
	if len(ready) > 0 {
		i := int(ready[0])
		if len(ready) > 1 {
			i = int(st.decide("select", ready))
		}
		if cases[i].send {
			st.doSend(th, cases[i].ch, cases[i].val)
			result(i, nil, false)
		} else {
			v, ok := st.doRecv(th, cases[i].ch)
			result(i, v, ok)
		}
		st.opDone(th)
		return stNext
	}
	if !x.Blocking {
		result(-1, nil, false)
		st.opDone(th)
		return stNext
	}
	if th.pending == nil {
		panic(st.violation("deadlock: select can never proceed", nil))
	}
	th.pending.cases = cases
	return st.blockOn(th, func() bool {
		if th.pending.completed {
			return true
		}
		for _, c := range cases {
			if c.send && st.canSend(c.ch, th) || !c.send && st.canRecv(c.ch, th) {
				return true
			}
		}
		return false
	})
}

func (st *State) execGo(th *Thread, fr *Frame, x *ssa.Go) stepStatus {
	f, args := st.resolveCall(fr, x.Common())
	if f.Fn == nil {
		panic(unsupported("go with builtin/native function"))
	}
	if _, _, handled := st.goIntrinsic(th, f.Fn, args); handled {
		return stNext
	}
	nt := st.newThread(f, args, f.Fn.String())
	nt.vc = st.vcCopy(th)
	st.vcTick(th)
	st.vcTick(nt)
	return stNext
}

// ---------- mutexes etc. (keyed by the address of the Go object) ----------

type mutexState struct {
	writer  *Thread
	readers int
	relVC   []int
	rrelVC  []int
}

type onceState struct {
	done    bool
	running bool
	vc      []int
}

type wgState struct {
	n  int64
	vc []int
}

func (st *State) mutexAt(p Ptr) *mutexState {
	k := p.key()
	m := st.mutexes[k]
	if m == nil {
		m = &mutexState{}
		st.mutexes[k] = m
	}
	return m
}

func (st *State) lockOp(th *Thread, p Ptr, write bool, try bool) (stepStatus, bool) {
	if !st.syncPoint(th, "lock") {
		return stYield, false
	}
	m := st.mutexAt(p)
	can := func() bool {
		if write {
			return m.writer == nil && m.readers == 0
		}
		return m.writer == nil
	}
	if can() {
		if write {
			m.writer = th
			st.vcJoin(th, m.relVC)
			st.vcJoin(th, m.rrelVC)
		} else {
			m.readers++
			st.vcJoin(th, m.relVC)
		}
		st.opDone(th)
		return stNext, true
	}
	if try {
		st.opDone(th)
		return stNext, false
	}
	if th.pending == nil {
		panic(st.violation("deadlock: mutex can never be acquired", nil))
	}
	return st.blockOn(th, can), false
}

func (st *State) unlockOp(th *Thread, p Ptr, write bool) {
	m := st.mutexAt(p)
	if write {
		if m.writer == nil {
			panic(st.violation("sync: unlock of unlocked mutex", nil))
		}
		m.writer = nil
		m.relVC = st.vcCopy(th)
	} else {
		if m.readers <= 0 {
			panic(st.violation("sync: RUnlock of unlocked RWMutex", nil))
		}
		m.readers--
		m.rrelVC = vcMax(m.rrelVC, st.vcCopy(th))
	}
	st.vcTick(th)
}

// ---------- scheduler ----------

func (st *State) threadEnabled(t *Thread) bool {
	if t.done {
		return false
	}
	if t.pending == nil || !t.pending.blocked {
		return true
	}
	if t.pending.completed {
		return true
	}
	return t.pending.enabled != nil && t.pending.enabled()
}

// runAll drives all threads until the main thread (0) finishes or nothing is enabled.
func (st *State) runAll() {
	main := st.thrs[0]
	st.cur = main
	for {
		if main.done {
			return
		}
		var en []*Thread
		for _, t := range st.thrs {
			if st.threadEnabled(t) {
				en = append(en, t)
			}
		}
		// quiescence waiters: enabled only if nobody else is
		if len(en) == 0 {
			for _, t := range st.thrs {
				if !t.done && t.pending != nil && t.pending.kind == "quiesce" {
					en = append(en, t)
					break
				}
			}
		}
		if len(en) == 0 {
			// maximal state; an environment step (clock) may still be possible
			if st.envStep() {
				continue
			}
			st.cur = main
			panic(st.violation("deadlock: main harness thread blocked forever ("+st.blockedSummary()+")", nil))
		}
		next := en[0]
		if st.eng.cfg.SchedMode == "delay" {
			// delay-bounded scheduling: a deterministic round-robin scheduler (keep running the
			// current thread; when it cannot run, the next enabled thread in id order) and at most
			// Preempt deviations from it per path (a timer firing early is a deviation too)
			def := en[0]
			curEnabled := false
			for _, t := range en {
				if t == st.cur {
					curEnabled = true
				}
			}
			if curEnabled {
				def = st.cur
			} else {
				for _, t := range en {
					if t.id > st.cur.id {
						def = t
						break
					}
				}
			}
			alts := []int64{int64(def.id)}
			if st.preempts < st.eng.cfg.Preempt || st.eng.cfg.Preempt < 0 {
				for _, t := range en {
					if t != def {
						alts = append(alts, int64(t.id))
					}
				}
				for _, t := range st.preemptTimers() {
					alts = append(alts, int64(-1-t.id))
				}
			}
			id := int(alts[0])
			if len(alts) > 1 {
				id = int(st.decide("sched", alts))
			}
			if id != def.id {
				st.preempts++
			}
			if id < 0 {
				st.fire(st.timers[-1-id])
				continue
			}
			next = st.thrs[id]
		} else if len(en) > 1 {
			curEnabled := false
			for _, t := range en {
				if t == st.cur {
					curEnabled = true
				}
			}
			var alts []int64
			if curEnabled {
				alts = append(alts, int64(st.cur.id))
				if st.preempts < st.eng.cfg.Preempt || st.eng.cfg.Preempt < 0 {
					for _, t := range en {
						if t != st.cur {
							alts = append(alts, int64(t.id))
						}
					}
				}
			} else {
				for _, t := range en {
					alts = append(alts, int64(t.id))
				}
			}
			// a timer firing while threads could still run counts as one preemption
			if st.preempts < st.eng.cfg.Preempt || st.eng.cfg.Preempt < 0 {
				for _, t := range st.preemptTimers() {
					alts = append(alts, int64(-1-t.id))
				}
			}
			id := int(alts[0])
			if len(alts) > 1 {
				id = int(st.decide("sched", alts))
			}
			if id < 0 {
				st.preempts++
				st.fire(st.timers[-1-id])
				continue
			}
			next = st.thrs[id]
			if curEnabled && next != st.cur {
				st.preempts++
			}
		} else if ts := st.preemptTimers(); len(ts) > 0 && (st.preempts < st.eng.cfg.Preempt || st.eng.cfg.Preempt < 0) {
			alts := []int64{int64(next.id)}
			for _, t := range ts {
				alts = append(alts, int64(-1-t.id))
			}
			id := int(st.decide("sched", alts))
			if id < 0 {
				st.preempts++
				st.fire(st.timers[-1-id])
				continue
			}
		}
		st.schedule = append(st.schedule, next.id)
		st.cur = next
		st.runThread(next)
	}
}

func (st *State) blockedSummary() string {
	s := ""
	for _, t := range st.thrs {
		if !t.done {
			k := "?"
			if t.pending != nil {
				k = t.pending.kind
			}
			site := "?"
			if len(t.stack) > 0 {
				old := st.cur
				st.cur = t
				site = st.curSite()
				st.cur = old
			}
			s += fmt.Sprintf("[T%d %s at %s] ", t.id, k, site)
		}
	}
	return s
}

// runThread runs t until it yields, blocks or finishes.
func (st *State) runThread(t *Thread) {
	if t.pending != nil {
		t.pending.granted = true
	}
	for {
		if len(t.stack) == 0 {
			t.done = true
			t.pending = nil
			return
		}
		s := st.step(t)
		switch s {
		case stYield:
			return
		case stBlock:
			return
		}
	}
}

// vrtWaitQuiescent support: park until no other thread is enabled.
func (st *State) quiesce(th *Thread) stepStatus {
	if !st.multi() {
		return stNext
	}
	if th.pending != nil && th.pending.granted && th.pending.kind == "quiesce" {
		// granted only when nobody else was enabled
		for _, t := range st.thrs {
			if t != th && st.threadEnabled(t) {
				th.pending.granted = false
				return stBlock
			}
		}
		st.opDone(th)
		return stNext
	}
	th.pending = &syncOp{kind: "quiesce", blocked: true, enabled: func() bool { return false }}
	return stBlock
}
