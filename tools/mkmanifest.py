#!/usr/bin/env python3
"""Regenerates /verif/MANIFEST.json from the table below (kept next to the harness specs)."""
import json, os, subprocess

ROOT = "/verif"
props = [json.loads(l) for l in open(f"{ROOT}/properties.jsonl")]
ids = [p["id"] for p in props]

TECH = "bounded symbolic execution of the real Go code (go/ssa -> SMT bit-vectors, z3/cvc5), native replay of models"

# id -> (level text, level note, design ref)
claims = {}
na = {}

def claim(i, text, note, ref):
    claims[i] = (text, note, ref)

exec(open(f"{ROOT}/tools/claims.py").read())

checks = []
for i in ids:
    if i in claims:
        text, note, ref = claims[i]
        checks.append({
            "property_id": i,
            "quick_cmd": f"/verif/bin/gosym check {i} --tier quick",
            "thorough_cmd": f"/verif/bin/gosym check {i} --tier thorough",
            "evidence_file": f"/verif/evidence/{i}.json",
            "replay_cmd_template": "/verif/bin/gosym replay {path}",
            "engine": "gosym",
            "level_claimed": {"category": "model_checking", "text": text, "design_ref": ref},
            "level_note": note,
            "technique": TECH,
        })
m = {
    "version": 1,
    "setup_cmd": "cd /verif/engine && GOFLAGS=-mod=mod GOPROXY=off GOSUMDB=off GOTOOLCHAIN=local go build -o /verif/bin/gosym . && /verif/bin/gosym selftest",
    "hooks": {
        "guard": "verif",
        "enable": "-tags verif plus go build -overlay / packages.Config.Overlay: harness files are injected as virtual files /repo/<pkg>/zz_vrt_*.go; no source file of /repo is changed",
        "baseline_off_cmd": "cd /repo && go test -vet=off -count=1 -timeout 25m ./...",
        "source_commits": [],
        "add_only": True,
    },
    "engines": [{
        "name": "gosym", "path": "/verif/engine", "serves_properties": sorted(claims),
        "kind_free_text": "symbolic executor for Go SSA (golang.org/x/tools/go/ssa) written for this task: explicit-frame interpreter with concrete control flow per path and symbolic data, path exploration by decision-prefix re-execution on 16 workers, SMT-LIB2 over pipes to z3 4.8.12 (incremental), cvc5 --solve-bv-as-int for multiply/divide kernels, z3 5.1 cross-checks; bounded-preemption scheduler for goroutines/channels/mutexes; counterexamples are replayed on the natively compiled harness before being reported",
    }],
    "checks": checks,
    "notes": "Every check loads /repo's current working tree with go/packages on each run (nothing cached), executes the harnesses in /verif/harness/<id>/ symbolically and decides each assertion with an SMT solver within the bounds in /verif/harness/<id>/spec.json; exit 0 = all obligations unsat within bounds and all cover points reached, exit 1 = natively reproduced counterexample, exit 3 = inconclusive (never reported as success).",
    "not_applicable": [{"property_id": i, "reason": na.get(i, "check not built yet (engine under construction, see DESIGN.md)")} for i in ids if i not in claims],
}
json.dump(m, open(f"{ROOT}/MANIFEST.json", "w"), indent=1)
print("claimed:", sorted(claims), "not claimed:", [i for i in ids if i not in claims])
