#!/bin/bash
# usage: seedeval.sh <Cxx> <seed-out-dir e.g. /tmp/seed_C04/_out/A> <name> [harness]
# 1. verifies the seed in a scratch worktree (build, tests, demo fails with / passes without)
# 2. applies it to /repo, runs the check, undoes it
# 3. stores it under /verif/seeded/<name>/
prop=$1; src=$2; name=$3; only=$4
export GOFLAGS=-mod=mod GOPROXY=off GOSUMDB=off GOTOOLCHAIN=local
wt=/tmp/seedverify_$name
rm -rf $wt; git -C /repo worktree prune; git -C /repo worktree add -q --detach $wt HEAD || exit 2
demo_dir=$(head -3 $src/demo_test.go | grep -o 'copy to [^ ]*' | head -1 | sed 's/copy to //; s/[`"]//g; s/\/$//')
[ -z "$demo_dir" ] && demo_dir=$(head -5 $src/demo_test.go | grep -oE '(pkg|plugin)/[A-Za-z0-9_/]+' | head -1)
echo "demo dir: $demo_dir"
cp $src/demo_test.go $wt/$demo_dir/zz_seed_demo_test.go
run_demo() { (cd $wt && timeout 600 go test -vet=off -count=1 ./$demo_dir/ -run "$(grep -oE 'func (Test[A-Za-z0-9_]+)' $src/demo_test.go | sed 's/func //' | paste -sd'|')" 2>&1 | tail -3); }
echo "--- demo on unchanged tree (must pass)"; run_demo | tail -1
(cd $wt && git apply $src/patch.diff) || { echo "PATCH DOES NOT APPLY"; git -C /repo worktree remove --force $wt; exit 2; }
echo "--- build + suite with change (must pass)"
(cd $wt && go build ./... && go test -vet=off -count=1 ./... 2>&1 | grep -v "no test files\|^ok" | grep -v zz_seed | head -5)
echo "--- demo with change (must fail)"; run_demo | tail -1
git -C /repo worktree remove --force $wt
echo "--- check on /repo with the change applied"
git -C /repo apply $src/patch.diff || { echo "PATCH DOES NOT APPLY TO /repo"; exit 2; }
(cd /verif && ./bin/gosym check $prop ${only:+--only $only} 2>&1 | grep -E "violated|^VIOLATION|UNCONFIRMED|INCONCLUSIVE|VACUOUS|MISMATCH|exit" | cut -c1-260 | head -10)
git -C /repo checkout -- .
mkdir -p /verif/seeded/$name && cp $src/patch.diff $src/demo_test.go /verif/seeded/$name/ && cp $src/README.md /verif/seeded/$name/agent_README.md
