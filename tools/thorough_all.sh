#!/bin/bash
# runs every thorough check from a snapshot directory (vp run): builds its own binary, writes evidence/out below $PWD
export GOFLAGS=-mod=mod GOPROXY=off GOSUMDB=off GOTOOLCHAIN=local GOSYM_ROOT=$PWD GOSYM_REPO=${VP_RUN_REPO:-/repo}
(cd engine && go build -o ../bin/gosym .) || exit 2
for i in ${@:-C04 C13 C16 C18 C11 C05 C10 C03 C15 C19 C06 C12 C20 C02 C09 C01 C08 C17 C14 C07}; do
  /usr/bin/time -f "$i wall=%es" ./bin/gosym check $i --tier thorough 2>&1 | grep -E "^==|paths=|INCONCL|VIOLATION|UNCONF|VACUOUS|wall=" | cut -c1-250
done
