# Claimed properties: claim(id, what the check gives, what is assumed, DESIGN ref)
claim("C04",
  "For every pair of queries (all 2^16 types x 2^16 classes x AD/CD/DO x QR/opcode/question count, names of every length up to the bound with arbitrary bytes) the solver shows getMsgKey maps them to the same non-empty key only if name, type, class and AD/CD/DO agree, and to the empty key exactly when the query bypasses the cache.",
  "Names bounded (quick 4, thorough 24 bytes; both queries); the end-to-end Exec store/lookup path is covered by the C05/C10 harnesses; miekg/dns IsEdns0/Do executed from SSA.",
  "DESIGN.md §6 C04")
claim("C13",
  "For K prefixes (every family, every 128-bit base address incl. host bits, every length) in every load order and every query address (IPv4, IPv6, IPv4-mapped) the solver shows List.Contains/Match equals 'some loaded prefix covers the address' computed by an independent bit-level reference; Append/Sort/Contains and the net/netip code beneath them are executed from SSA.",
  "K bounded (quick 2, thorough 4 prefixes); zoned addresses and text parsing outside the claim; sort.Sort executed (insertion-sort regime).",
  "DESIGN.md §6 C13")
claim("C16",
  "Framing readers/writers are executed on arbitrary byte streams with an arbitrary (symbolic) length header, symbolic chunk sizes and early EOF/error: the result is exactly the announced bytes in a buffer of exactly that length or an error with no buffer; writers emit exactly one Write of BE16(len)||msg, refuse >65535 bytes without writing; write-then-read is the identity; UDP reader skips short datagrams.",
  "Streams bounded (quick 17, thorough 24 bytes) with at most 2/3 partial reads per stream; go-bytes-pool modelled (arbitrary contents, poison on release); concurrent non-interleaving rests on the asserted single Write plus net.Conn write atomicity; PackTCPBuffer/dns.Pack outside.",
  "DESIGN.md §6 C16")
claim("C18",
  "Address helpers behind NewUpstream (tryTrimIpv6Brackets, parseDialAddr, trySplitHostPort, tryRemovePort with net.SplitHostPort and strconv.ParseUint executed from SSA) are checked for every host text within the bound and every port 1..65535: host and port come back exactly as written, defaults apply only when no port is given, dial_addr overrides the URL host, bracket trimming removes exactly the brackets and never panics.",
  "Helper level only: url.Parse, the dial closures inside NewUpstream, TLS ServerName plumbing, h3/quic/SOCKS5 are outside this check; host text bounded (quick 3-5, thorough 8-12 bytes over [a-f0-9.:-]).",
  "DESIGN.md §6 C18")
claim("C11",
  "Capacity bound by induction over solver-checked steps: pkg/cache clamps every int size to >= 1024; NewMapCache gives every shard a maximum m with 1 <= m and 64*m <= size for every size >= 64; one shard.set from any state with len <= max (all key values, every map iteration order) keeps len <= max, holds the new key and introduces no foreign key; get/set/del/flush/len are exact sequentially for colliding and non-colliding keys.",
  "Shard states bounded to 0..4 entries, max 1..4; the concurrent part of the property (race freedom, linearizable Get under concurrent Store/Flush/gc) is checked by the C11_conc harness when present in spec.json, otherwise not yet claimed.",
  "DESIGN.md §6 C11")
claim("C05",
  "saveRespToCache/getRespFromCache, the TTL helpers, dns.Msg.Copy and pkg/cache Get/Store are executed on an arbitrary answer (any rcode, TC, record TTLs 0..2^32-1 in all three sections, with/without OPT, lazy_cache_ttl off/any positive) and an arbitrary elapsed time 0..2^31 s: admission follows the property's rules and lifetimes (30 s / 5 s / min(300, minTTL) / minTTL), a hit is served fresh iff the smallest TTL has not run out, every non-OPT TTL is lowered by the whole seconds elapsed and never below 1, stale answers are served only with lazy caching on and with TTL 5, expired entries are invisible.",
  "At most max_rr records per section (quick 1, thorough 2); elapsed time applied by shifting the entry's instants (equivalent to advancing the clock, replayable natively) on a 512-ns grid at least 1 ms away from whole seconds; the 'at most one background refresh per key' clause (singleflight + goroutine) is not yet covered by this harness.",
  "DESIGN.md §6 C05")
claim("C10",
  "For every answer within the bound the stored copy, the original and successive hits are pairwise disjoint in heap reachability (no shared RR struct, slice backing array, option object or Question slice), the stored copy holds no OPT, and after adversarial in-place mutation of an earlier hit and of the original (TTLs, names, record data, slot overwrite, in-place append, EDNS append) a later hit is field-for-field what was stored.",
  "At most max_rr records per section over {A, AAAA, CNAME, TXT, SOA, OPT}; Go's append growth modelled without size-class rounding; concurrency follows from disjointness plus C11; ID rewrite of hits asserted with cache.Exec when that harness is present.",
  "DESIGN.md §6 C10")
claim("C03",
  "EntryHandler.Handle with query_context and the real context package is executed on an arbitrary query struct (ID, all header bits, 0-2 questions with symbolic names/type/class, stray answer/authority records, none/one/two additional records, OPT with any size/flags/0-2 options) against a plugin chain ending in error / no response / a response with arbitrary header, rcode and records: malformed <=> no reply and chain not run; otherwise exactly one reply with the query's ID and question, QR and RA set, SERVFAIL / REFUSED / the plugins' answer; over UDP Truncate is called once with max(512, advertised) after the OPT append; getValidUDPSize = max(512, size) for all sizes.",
  "Message level only (Pack/Unpack/Truncate of miekg/dns not encoded; a wrong Truncate argument is found symbolically but cannot be replayed natively on small answers and is reported as inconclusive, exit 3); the plugin chain is a harness double obeying the property's premise; servers (UDP/TCP/DoH write sites) and real plugin compositions are outside this harness.",
  "DESIGN.md §6 C03")
claim("C15",
  "Through Handle + query_context: the query shown to the plugin chain carries exactly one fresh OPT (not the client's record, none of its options); the reply carries exactly one OPT iff the client sent one, it is the server's own record, DO mirrored, no client/upstream options, last in the additional section; the upstream's OPT is popped from every response set. TTL helpers leave the OPT flags word untouched and never duplicate/drop it; stored cache items contain no OPT.",
  "No explicitly forwarding plugin (ecs_handler, forward_edns0opt) in the harness chain; message level (wire codec not encoded); client OPT <= 2 options, upstream OPT 1-2 options.",
  "DESIGN.md §6 C15")
claim("C20",
  "fallback.doFallback is executed with its real goroutines, channels, select, pooled timer and context package under a bounded-preemption scheduler: with the threshold timer disarmed, for all 3x3 worker outcomes x always_standby and every schedule within the bound the primary's answer is returned whenever it produces one, the secondary is not started (non-standby) unless the primary failed, the secondary's answer is used only after primary failure, ErrFailed iff both fail; with all timers free to fire at any scheduling point and optional caller cancellation the call always returns, an answer is one of the workers' answers, ErrFailed only if both failed, other errors are the context's.",
  "Preemption bound: C20_noTimer quick 2 / thorough 3, C20_timers quick 1 / thorough 2 (a timer firing while threads are runnable counts as a preemption); harness executables finish at an arbitrary scheduling point; schedule-dependent counterexamples are confirmed by native stress replay (up to 300000 iterations), not by a forced schedule.",
  "DESIGN.md §6 C20")
claim("C02",
  "TraditionalDnsConn (UDP datagrams and length-prefixed streams; reserve/exchange/readLoop/queue) and ReuseConnTransport (dial goroutine, reusableConn.exchange/readLoop) are executed with their real goroutines against a harness connection whose server answers every frame exactly once at an arbitrary scheduling point after the write - including before Write returns (synchronous connection) and between Write and the final select - optionally followed by EOF: in every schedule within the bound every caller returns its own reply with nil error; a caller left blocked in a maximal state is reported as a violation.",
  "1 caller (quick) / 2 concurrent callers (thorough) on the pipelined connection, 1 caller on the non-pipelined transport; preemption bound quick 2 / thorough 3; no timer fires (frozen clock, deadlines are no-ops, UDP resend ticker never fires); lazy-dial connections are exercised in C09; native confirmation by synchronous connection and stress replay.",
  "DESIGN.md §6 C02")
