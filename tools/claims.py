# Claimed properties: claim(id, what the check gives, what is assumed, DESIGN ref)
claim("C04",
  "For every pair of queries (all 2^16 types x 2^16 classes x AD/CD/DO x QR/opcode/question count, names of every length up to the bound with arbitrary bytes) the solver shows getMsgKey maps them to the same non-empty key only if name, type, class and AD/CD/DO agree, and to the empty key exactly when the query bypasses the cache.",
  "Names bounded (quick 4, thorough 24 bytes; both queries); the end-to-end Exec store/lookup path is covered by the C05/C10 harnesses; miekg/dns IsEdns0/Do executed from SSA.",
  "DESIGN.md §6 C04")
claim("C13",
  "For K prefixes (every family, every 128-bit base address incl. host bits, every length) in every load order and every query address (IPv4, IPv6, IPv4-mapped) the solver shows List.Contains/Match equals 'some loaded prefix covers the address' computed by an independent bit-level reference; Append/Sort/Contains and the net/netip code beneath them are executed from SSA.",
  "K bounded (quick 2, thorough 4 prefixes); zoned addresses and text parsing outside the claim; sort.Sort executed (insertion-sort regime).",
  "DESIGN.md §6 C13")
claim("C16",
  "Framing readers/writers are executed on arbitrary byte streams with an arbitrary (symbolic) length header, symbolic chunk sizes and early EOF/error: the result is exactly the announced bytes in a buffer of exactly that length or an error with no buffer; writers emit exactly one Write of BE16(len)||msg, refuse >65535 bytes without writing; write-then-read is the identity; UDP reader skips short datagrams.",
  "Streams bounded (quick 17, thorough 24 bytes) with at most 2/3 partial reads per stream; go-bytes-pool modelled (arbitrary contents, poison on release); concurrent non-interleaving rests on the asserted single Write plus net.Conn write atomicity; PackTCPBuffer/dns.Pack outside.",
  "DESIGN.md §6 C16")
claim("C18",
  "Address helpers behind NewUpstream (tryTrimIpv6Brackets, parseDialAddr, trySplitHostPort, tryRemovePort with net.SplitHostPort and strconv.ParseUint executed from SSA) are checked for every host text within the bound and every port 1..65535: host and port come back exactly as written, defaults apply only when no port is given, dial_addr overrides the URL host, bracket trimming removes exactly the brackets and never panics.",
  "Helper level only: url.Parse, the dial closures inside NewUpstream, TLS ServerName plumbing, h3/quic/SOCKS5 are outside this check; host text bounded (quick 3-5, thorough 8-12 bytes over [a-f0-9.:-]).",
  "DESIGN.md §6 C18")
claim("C11",
  "Capacity bound by induction over solver-checked steps: pkg/cache clamps every int size to >= 1024; NewMapCache gives every shard a maximum m with 1 <= m and 64*m <= size for every size >= 64; one shard.set from any state with len <= max (all key values, every map iteration order) keeps len <= max, holds the new key and introduces no foreign key; get/set/del/flush/len are exact sequentially for colliding and non-colliding keys.",
  "Shard states bounded to 0..4 entries, max 1..4; the concurrent part of the property (race freedom, linearizable Get under concurrent Store/Flush/gc) is checked by the C11_conc harness when present in spec.json, otherwise not yet claimed.",
  "DESIGN.md §6 C11")
