#!/bin/bash
# usage: mutate.sh <Cxx> <file-under-repo> <python-regex-or-literal-old> <new>   (literal replace, first occurrence)
# applies the mutation to /repo, checks it compiles, runs the quick check, restores /repo
prop=$1; file=$2; old=$3; new=$4
cd /repo || exit 2
python3 - "$file" "$old" "$new" <<'PY'
import sys
f,old,new=sys.argv[1:4]
s=open(f).read()
if old not in s:
    print("MUTATION-NOT-APPLICABLE: pattern not found"); sys.exit(1)
open(f,'w').write(s.replace(old,new,1))
PY
if [ $? -ne 0 ]; then git checkout -- . ; exit 2; fi
if ! go build ./... 2>/tmp/mut_build.txt; then echo "MUTANT-DOES-NOT-COMPILE"; head -3 /tmp/mut_build.txt; git checkout -- .; exit 2; fi
cd /verif && ./bin/gosym check $prop ${5:+--only $5} 2>&1 | grep -E "violated|^VIOLATION|UNCONFIRMED|INCONCLUSIVE|VACUOUS|MISMATCH|exit" | cut -c1-220 | head -8
cd /repo && git checkout -- .
