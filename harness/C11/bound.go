//go:build verif

package cache

import "time"

type vrtBKey uint32

func (k vrtBKey) Sum() uint64 { return uint64(k) }

// The capacity bound of pkg/cache through its exported API only: with the minimum size
// 1024 (16 entries per shard) no history of Store/Flush/Get leaves more than 16 live
// entries in one shard, hence never more than 1024 in the cache; Flush neither loses
// the bound nor keeps entries.
func vrtHarness_C11_flushBound() {
	size := int(vrtBelow(1025)) // every configured size up to the minimum gives 1024
	c := New[vrtBKey, int](Opts{Size: size})
	defer c.Close()
	far := time.Now().Add(time.Hour)
	shard := vrtBKey(vrtBelow(2)) // two shards stand for the 64 (the shard function is symmetric in them)
	n := int(vrtParam("stores", 18))
	flushAt := int(vrtBelow(uint64(n) + 1)) // == n: never flushed
	stored := 0
	for i := 0; i < n; i++ {
		if i == flushAt {
			c.Flush()
			vrtCover("flushed", true)
			vrtAssert("Flush empties the cache", c.Len() == 0)
			stored = 0
		}
		c.Store(vrtBKey(i)*64+shard, i, far)
		stored++
		want := stored
		if want > 16 {
			want = 16
		}
		vrtAssert("a shard of a size-1024 cache holds min(stored, 16) entries, before and after Flush", c.Len() == want)
	}
	v, _, ok := c.Get(vrtBKey(n-1)*64 + shard)
	vrtAssert("the entry stored last is present", vrtAnd(ok, v == n-1))
}
