//go:build verif

package concurrent_map

type vrtKey uint32

func (k vrtKey) Sum() uint64 { return uint64(k) }

// O1a: for every size >= 64 each shard's maximum m satisfies 1 <= m and 64*m <= size.
// (sizes below 64 are the caller's responsibility: pkg/cache guarantees >= 1024, see C11_sizeMin)
func vrtHarness_C11_shardMax() {
	size := vrtInt()
	vrtAssume(size >= 64)
	m := NewMapCache[vrtKey, int](size)
	i := vrtInt()
	vrtAssume(vrtAnd(i >= 0, i < MapShardSize))
	mx := m.shards[i].max
	vrtCover("bounded shard", mx >= 1)
	vrtAssert("every shard has a positive maximum", mx >= 1)
	vrtAssert("shard maxima sum to at most the configured size", vrtAnd(mx <= size/MapShardSize, mx*MapShardSize <= size))
}

// O2: inductive step of the capacity bound.  From any shard state with
// len <= max (0..4 entries, arbitrary keys, max 1..4), one set() leaves
// len <= max, contains the new key with the new value, and keeps only
// entries that were there before.
func vrtHarness_C11_setStep() {
	max := 1 + vrtChoice(vrtParam("max_max", 3))
	n := vrtChoice(max + 1) // current number of entries 0..max
	s := newShard[vrtKey, int](max)
	var keys []vrtKey
	for i := 0; i < n; i++ {
		k := vrtKey(vrtU32())
		for _, o := range keys {
			vrtAssume(k != o)
		}
		keys = append(keys, k)
		s.m[k] = int(vrtU32())
	}
	nk, nv := vrtKey(vrtU32()), int(vrtU32())
	s.set(nk, nv)
	vrtCover("eviction happened", len(s.m) <= n)
	vrtAssert("shard stays within its maximum", len(s.m) <= max)
	got, ok := s.get(nk)
	vrtAssert("new key present with the new value", vrtAnd(ok, got == nv))
	for k := range s.m {
		if k != nk {
			found := false
			for _, o := range keys {
				found = vrtOr(found, o == k)
			}
			vrtAssert("no foreign key appears", found)
		}
	}
	vrtAssert("lock released", s.l.TryLock())
}

// Sequential exactness of get/set/del/flush/len on one shard-sized map.
func vrtHarness_C11_seqOps() {
	m := NewMapCache[vrtKey, int](vrtParam("size", 128))
	k1, k2 := vrtKey(vrtU32()&0x43), vrtKey(vrtU32()&0x43) // shards 0..3, two keys per shard
	v1, v2 := int(vrtU32()), int(vrtU32())
	m.Set(k1, v1)
	m.Set(k2, v2)
	g1, ok1 := m.Get(k1)
	vrtCover("distinct keys", k1 != k2)
	vrtCover("same key", k1 == k2)
	vrtAssert("get returns the last value stored under exactly that key",
		vrtAnd(ok1, vrtImplies(k1 != k2, g1 == v1), vrtImplies(k1 == k2, g1 == v2)))
	vrtAssert("len counts distinct keys", vrtAnd(vrtImplies(k1 != k2, m.Len() == 2), vrtImplies(k1 == k2, m.Len() == 1)))
	m.Del(k1)
	_, ok := m.Get(k1)
	vrtAssert("deleted key is gone", !ok)
	g2, ok2 := m.Get(k2)
	vrtAssert("other key unaffected by delete", vrtImplies(k1 != k2, vrtAnd(ok2, g2 == v2)))
	m.Flush()
	_, ok = m.Get(k2)
	vrtAssert("flush removes everything", vrtAnd(!ok, m.Len() == 0))
}

// O3: two threads, each doing one operation on one shard (the unit that owns a lock; Map
// methods only route to a shard, see C11_seqOps).  A get returns nothing or a value that was
// stored under exactly that key and not removed by an operation that completed before it
// began; no operation races on memory (race detector on).
func vrtHarness_C11_conc() {
	sh := newShard[vrtKey, int](4)
	m := &sh
	k0 := vrtKey(vrtU32() & 1)
	m.set(k0, 10)
	type obs struct {
		v  int
		ok bool
	}
	var got [2]obs
	did := [2]int{vrtChoice(6), vrtChoice(6)}
	keys := [2]vrtKey{vrtKey(vrtU32() & 1), vrtKey(vrtU32() & 1)}
	run := func(i int) {
		switch did[i] {
		case 0:
			got[i].v, got[i].ok = m.get(keys[i])
		case 1:
			m.set(keys[i], 20+i)
		case 2:
			m.del(keys[i])
		case 3:
			m.flush()
		case 4:
			got[i].v = m.len()
		case 5:
			_ = m.rangeDo(func(k vrtKey, v int) (int, bool, bool, error) { return 0, false, v == 10, nil })
		}
	}
	done := make(chan struct{})
	go func() { run(1); close(done) }()
	run(0)
	<-done
	vrtCover("get ran", did[0] == 0)
	for i := 0; i < 2; i++ {
		if did[i] != 0 {
			continue
		}
		o, ok := did[1-i], got[i]
		if ok.ok {
			fromInit := vrtAnd(ok.v == 10, keys[i] == k0)
			fromOther := vrtAnd(o == 1, ok.v == 20+(1-i), keys[1-i] == keys[i])
			vrtAssert("a lookup returns only a value stored under exactly that key", vrtOr(fromInit, fromOther))
		} else {
			never := keys[i] != k0
			removed := vrtOr(vrtAnd(o == 2, keys[1-i] == keys[i]), o == 3, vrtAnd(o == 5, keys[i] == k0))
			vrtAssert("a lookup misses only if the key was never stored or was removed", vrtOr(never, removed))
		}
	}
	vrtAssert("size is bounded by what was stored", m.len() <= 2)
}
