//go:build verif

package concurrent_map

// Exactness through the exported API only, with keys whose hash sums may
// collide completely (distinct keys, identical Sum()): a lookup returns only a
// value stored under exactly that key.
type vrtSKey struct {
	id  uint32
	sum uint64
}

func (k vrtSKey) Sum() uint64 { return k.sum }

func vrtHarness_C11_api() {
	m := NewMapCache[vrtSKey, int](vrtParam("size", 128))
	s := uint64(vrtU32() & 1) // both keys may land in the same shard with the same sum
	a := vrtSKey{id: vrtU32() & 3, sum: s}
	b := vrtSKey{id: vrtU32() & 3, sum: uint64(vrtU32() & 1)}
	va, vb := int(vrtU32()), int(vrtU32())
	m.Set(a, va)
	g, ok := m.Get(b)
	vrtCover("distinct keys with equal sums", vrtAnd(a.id != b.id, a.sum == b.sum))
	vrtAssert("a lookup returns only a value stored under exactly that key", vrtAnd(ok == (a == b), vrtImplies(ok, g == va)))
	m.Set(b, vb)
	g, ok = m.Get(a)
	vrtAssert("a store under another key does not change this key's value", vrtAnd(ok, vrtImplies(a != b, g == va), vrtImplies(a == b, g == vb)))
	vrtAssert("len counts distinct keys", vrtAnd(vrtImplies(a != b, m.Len() == 2), vrtImplies(a == b, m.Len() == 1)))
	m.Del(b)
	_, ok = m.Get(a)
	vrtAssert("deleting another key keeps this one", ok == (a != b))
	n := 0
	_ = m.RangeDo(func(k vrtSKey, v int) (int, bool, bool, error) { n++; return 0, false, false, nil })
	vrtAssert("range visits exactly the stored entries", n == m.Len())
}
