//go:build verif

package cache

// O1b: the documented minimum size of 1024 holds for every configured size.
func vrtHarness_C11_sizeMin() {
	o := Opts{Size: vrtInt()}
	in := o.Size
	o.init()
	vrtCover("small size raised", in < 1024)
	vrtCover("large size kept", in > 1024)
	vrtAssert("effective size is at least the documented minimum 1024", o.Size >= 1024)
	vrtAssert("sizes above the minimum are honoured", vrtImplies(in >= 1024, o.Size == in))
}
