//go:build verif

package cache

import "time"

type vrtCKey uint32

func (k vrtCKey) Sum() uint64 { return uint64(k) }

// pkg/cache on top of the shard map: an entry is visible exactly until its expiry instant,
// expired entries are hidden by Get (and removed), swept by gc, never admitted by Store;
// a live entry of another key is untouched.  Ageing is applied by moving the stored expiry
// back (equivalent to advancing the clock, and reproducible natively).
func vrtHarness_C11_expiry() {
	c := New[vrtCKey, int](Opts{Size: 1024})
	defer c.Close()
	now := time.Now()
	k1, k2 := vrtCKey(vrtU32()&0x41), vrtCKey(vrtU32()&0x41)
	vrtAssume(k1 != k2)
	// life in whole milliseconds, at least 50 ms away from 'now' (native clock drift)
	life1 := time.Duration(50+vrtBelow(86400000)) * time.Millisecond
	past := vrtChoice(2) == 1
	if past {
		c.Store(k1, 7, now.Add(-life1))
		_, _, ok := c.Get(k1)
		vrtCover("expired entry refused", true)
		vrtAssert("Store refuses an entry that has already expired", vrtAnd(!ok, c.Len() == 0))
		return
	}
	c.Store(k1, 7, now.Add(life1))
	c.Store(k2, 9, now.Add(48*time.Hour))
	v, exp, ok := c.Get(k1)
	vrtAssert("a live entry is returned with its value and expiry", vrtAnd(ok, v == 7, exp.Equal(now.Add(life1))))
	// let 'age' pass for k1
	age := time.Duration(vrtBelow(2*86400000)) * time.Millisecond
	vrtAssume(vrtOr(age+50*time.Millisecond <= life1, age >= life1+50*time.Millisecond))
	e, has := c.m.Get(k1)
	vrtAssume(has)
	e.expirationTime = e.expirationTime.Add(-age)
	live := age < life1
	sweep := vrtChoice(2) == 1
	if sweep {
		c.gc(time.Now())
		vrtCover("swept", true)
		vrtAssert("the sweep removes exactly the expired entries", c.Len() == int(vrtIteU64(live, 2, 1)))
	}
	v, _, ok = c.Get(k1)
	vrtCover("lookup of an aged entry", true)
	vrtAssert("a lookup returns the value iff the entry has not expired", vrtAnd(ok == live, vrtImplies(ok, v == 7)))
	vrtAssert("an expired entry is removed by the lookup that finds it", c.Len() == int(vrtIteU64(live, 2, 1)))
	v2, _, ok2 := c.Get(k2)
	vrtAssert("another key's live entry is untouched", vrtAnd(ok2, v2 == 9))
	n := 0
	_ = c.Range(func(k vrtCKey, v int, exp time.Time) error { n++; return nil })
	vrtAssert("Range visits exactly the stored entries", n == c.Len())
	c.Flush()
	vrtAssert("Flush empties the cache", c.Len() == 0)
}

// The same with real time passing instead of shifted instants: an entry with a short life is
// looked up after the clock has moved on - no other operation in between (an idle cache).
// It is returned iff its expiry has not passed.
func vrtHarness_C11_expiryClock() {
	c := New[vrtCKey, int](Opts{Size: 1024, CleanerInterval: time.Hour})
	defer c.Close()
	life := time.Duration(100+vrtBelow(101)) * time.Millisecond // 100..200 ms
	age := time.Duration(vrtBelow(401)) * time.Millisecond      // 0..400 ms
	vrtAssume(vrtOr(age+50*time.Millisecond <= life, age >= life+50*time.Millisecond))
	k := vrtCKey(vrtU32() & 0x41)
	c.Store(k, 7, time.Now().Add(life))
	vrtClockAdvance(age)
	v, _, ok := c.Get(k)
	vrtCover("looked up after its expiry", age > life)
	vrtCover("looked up before its expiry", age < life)
	vrtAssert("on an idle cache a lookup returns the value iff the entry has not expired", vrtAnd(ok == (age < life), vrtImplies(ok, v == 7)))
}
