//go:build verif

package cache

import "time"

type vrtCCKey uint32

func (k vrtCCKey) Sum() uint64 { return uint64(k) }

// pkg/cache under concurrency: two threads, each doing one operation on a cache that holds
// one entry.  A lookup returns nothing or a (value, expiry) pair that was stored together
// under exactly that key; no operation races on memory (race detector on).
func vrtHarness_C11_cacheConc() {
	c := New[vrtCCKey, int](Opts{Size: 1024})
	defer c.Close()
	now := time.Now()
	exp0 := now.Add(time.Hour)
	exps := [2]time.Time{now.Add(2 * time.Hour), now.Add(3 * time.Hour)}
	k0 := vrtCCKey(vrtU32() & 1)
	c.Store(k0, 10, exp0)
	type obs struct {
		v   int
		exp time.Time
		ok  bool
	}
	var got [2]obs
	did := [2]int{vrtChoice(6), vrtChoice(6)}
	keys := [2]vrtCCKey{vrtCCKey(vrtU32() & 1), vrtCCKey(vrtU32() & 1)}
	run := func(i int) {
		switch did[i] {
		case 0:
			got[i].v, got[i].exp, got[i].ok = c.Get(keys[i])
		case 1:
			c.Store(keys[i], 20+i, exps[i]) // possibly overwriting the entry a concurrent Get is reading
		case 2:
			c.Flush()
		case 3:
			got[i].v = c.Len()
		case 4:
			_ = c.Range(func(k vrtCCKey, v int, exp time.Time) error { return nil })
		case 5:
			c.gc(time.Now())
		}
	}
	done := make(chan struct{})
	go func() { run(1); close(done) }()
	run(0)
	<-done
	vrtCover("get ran", did[0] == 0)
	vrtCover("get ran against an overwriting store", vrtAnd(did[0] == 0, did[1] == 1, keys[0] == keys[1], keys[0] == k0))
	for i := 0; i < 2; i++ {
		if did[i] != 0 {
			continue
		}
		o, g := did[1-i], got[i]
		if g.ok {
			fromInit := vrtAnd(g.v == 10, g.exp.Equal(exp0), keys[i] == k0)
			fromOther := vrtAnd(o == 1, g.v == 20+(1-i), g.exp.Equal(exps[1-i]), keys[1-i] == keys[i])
			vrtAssert("a lookup returns only a value and expiry that were stored together under exactly that key", vrtOr(fromInit, fromOther))
		} else {
			vrtAssert("a lookup misses only if the key was never stored or was flushed", vrtOr(keys[i] != k0, o == 2))
		}
	}
	vrtAssert("size is bounded by what was stored", c.Len() <= 2)
}
