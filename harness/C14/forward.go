//go:build verif

package fastforward

import (
	"context"
	"errors"

	"github.com/IrineSistiana/mosdns/v5/pkg/pool"
	"github.com/IrineSistiana/mosdns/v5/pkg/query_context"
	"github.com/miekg/dns"
	"go.uber.org/zap"
)

var vrtErrUp = errors.New("vrt: upstream failed")

// vrtUp is a harness upstream. outcome: 0 NOERROR, 1 NXDOMAIN, 2 SERVFAIL, 3 error,
// 4 unparsable bytes, 5 never answers (returns when its context ends).
type vrtUp struct {
	idx     int
	outcome int
	calls   int
	got     [][]byte
	bufs    []*byte
	rel     chan struct{} // closed by the harness: the 5 s upstream timeout has passed
}

func (u *vrtUp) Close() error { return nil }

func (u *vrtUp) ExchangeContext(ctx context.Context, m []byte) (*[]byte, error) {
	vrtAtomic(func() {
		u.calls++
		u.got = append(u.got, append([]byte(nil), m...))
		u.bufs = append(u.bufs, &m[0])
	})
	if u.outcome == 5 {
		select {
		case <-ctx.Done():
		case <-u.rel:
		}
		return nil, vrtErrUp
	}
	vrtYield() // the answer arrives at an arbitrary instant
	switch u.outcome {
	case 3:
		return nil, vrtErrUp
	case 4:
		b := pool.GetBuf(5)
		return b, nil
	}
	b := pool.GetBuf(12)
	for i := range *b {
		(*b)[i] = 0
	}
	(*b)[0], (*b)[1] = 0xAB, byte(u.idx) // marks which upstream answered
	(*b)[2] = 0x80
	(*b)[3] = []byte{0, 3, 2}[u.outcome]
	return b, nil
}

func vrtHarness_C14_exchange() {
	n := 1 + vrtChoice(vrtParam("max_upstreams", 3))
	concs := []int{0, 2, 7, -1, 1, 3}
	conc := concs[vrtChoice(vrtParam("conc_values", 6))]
	f := &Forward{args: &Args{Concurrent: conc}, logger: zap.NewNop()}
	ups := make([]*vrtUp, n)
	maxOutcome := 5
	cancelCase := vrtChoice(2) == 1
	if cancelCase {
		maxOutcome = 6
	}
	for i := range ups {
		ups[i] = &vrtUp{idx: i, outcome: vrtChoice(maxOutcome), rel: make(chan struct{})}
		uw := newWrapper(i, UpstreamConfig{Addr: "x"}, "")
		uw.u = ups[i]
		f.us = append(f.us, uw)
	}
	q := new(dns.Msg)
	q.Id = vrtU16()
	q.Question = []dns.Question{{Name: "a.", Qtype: dns.TypeA, Qclass: dns.ClassINET}}
	qCtx := query_context.NewContext(q)
	want, err := qCtx.Q().Pack()
	vrtAssume(err == nil)

	ctx, cancel := context.WithCancel(context.Background())
	cancelled := false
	if cancelCase {
		go func() {
			vrtAtomic(func() { cancelled = true })
			cancel()
		}()
	}
	r, err := f.exchange(ctx, qCtx, f.us)
	cancel()
	for _, u := range ups {
		close(u.rel)
	}
	vrtWaitQuiescent() // every started helper has called its upstream and finished
	vrtAssert("helper goroutines end once their upstream call returned", vrtLiveThreads() == 0)

	c := conc
	if c <= 0 {
		c = 1
	}
	if c > 3 {
		c = 3
	}
	total, good, bad, failed, hung := 0, 0, 0, 0, 0
	for _, u := range ups {
		total += u.calls
		for k := range u.got {
			vrtAssert("each queried upstream receives the packed query byte for byte", vrtBytesEq(u.got[k], want))
		}
		if u.calls > 0 {
			switch {
			case u.outcome <= 1:
				good++
			case u.outcome == 2:
				bad++
			case u.outcome == 5:
				hung++
			default:
				failed++
			}
		}
	}
	vrtAssert("exactly clamp(concurrent,1,3) exchanges are started", total == c)
	// cyclically consecutive positions: the per-upstream call counts differ by at most one and the
	// upstreams called most form one cyclic run
	lo, hi := c/n, (c+n-1)/n
	run, runs := 0, 0
	for i, u := range ups {
		vrtAssert("positions wrap around the list evenly", vrtAnd(u.calls >= lo, u.calls <= hi))
		prev := ups[(i+n-1)%n]
		if u.calls == hi && hi > lo {
			run++
			if prev.calls != hi {
				runs++
			}
		}
	}
	if hi > lo && run < n {
		vrtAssert("queried positions are cyclically consecutive", runs == 1)
	}
	// private buffers
	var all []*byte
	for _, u := range ups {
		all = append(all, u.bufs...)
	}
	for i := range all {
		for j := range all {
			if i < j {
				vrtAssert("every exchange gets a buffer of its own", all[i] != all[j])
			}
		}
	}
	if err == nil {
		vrtCover("answer returned", true)
		from := int(r.Id & 0xff)
		vrtAssert("the answer comes from a queried upstream", vrtAnd(r.Id>>8 == 0xAB, from < n, ups[from].calls > 0, ups[from].outcome <= 2))
		if good > 0 && hung == 0 {
			vrtAssert("a failing or bad upstream never masks a good answer", vrtOr(r.Rcode == dns.RcodeSuccess, r.Rcode == dns.RcodeNameError))
		}
	} else {
		vrtCover("error returned", true)
		if !cancelled {
			vrtAssert("without cancellation an error means no queried upstream produced a good answer", good == 0)
			vrtAssert("and that the last exchange to finish failed", vrtOr(failed > 0, hung > 0))
		}
	}
	if vrtAnd(good > 0, hung == 0, !cancelled) {
		vrtAssert("a good answer among the queried upstreams is returned", err == nil)
	}
}
