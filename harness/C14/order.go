//go:build verif

package fastforward

import (
	"context"

	"github.com/IrineSistiana/mosdns/v5/pkg/pool"
	"github.com/IrineSistiana/mosdns/v5/pkg/query_context"
	"github.com/miekg/dns"
	"go.uber.org/zap"
)

// vrtOrdUp finishes exactly when its turn in the arrival order has come.
type vrtOrdUp struct {
	idx, pos, outcome int // outcome: 0 NOERROR, 1 NXDOMAIN, 2 SERVFAIL, 3 error, 4 unparsable bytes
	turn              *int
}

func (u *vrtOrdUp) Close() error { return nil }

func (u *vrtOrdUp) ExchangeContext(ctx context.Context, m []byte) (*[]byte, error) {
	vrtAwait(func() bool { return *u.turn == u.pos }, func() {})
	vrtWaitQuiescent() // whatever the previous arrival set in motion has settled: this one arrives next
	defer vrtAtomic(func() { *u.turn++ })
	switch u.outcome {
	case 3:
		return nil, vrtErrUp
	case 4:
		return pool.GetBuf(5), nil
	}
	b := pool.GetBuf(12)
	for i := range *b {
		(*b)[i] = 0
	}
	(*b)[0], (*b)[1] = 0xAB, byte(u.idx)
	(*b)[2] = 0x80
	(*b)[3] = []byte{0, 3, 2}[u.outcome]
	return b, nil
}

// The arrival order is fixed by the harness: every upstream is queried (concurrency = number
// of upstreams) and finishes at its position of a chosen permutation.  The outcome is exactly
// what the property says: the first NOERROR/NXDOMAIN reply to arrive, else the outcome of
// the last exchange to finish - its reply whatever the rcode, or an error.
func vrtHarness_C14_order() {
	n := 2 + vrtChoice(vrtParam("max_upstreams", 3)-1)
	f := &Forward{args: &Args{Concurrent: n}, logger: zap.NewNop()}
	turn := 0
	perms := [][]int{{0, 1, 2}, {0, 2, 1}, {1, 0, 2}, {1, 2, 0}, {2, 0, 1}, {2, 1, 0}}
	perm := []int{0, 1}
	if n == 3 {
		perm = perms[vrtChoice(6)]
	} else if vrtChoice(2) == 1 {
		perm = []int{1, 0}
	}
	ups := make([]*vrtOrdUp, n)
	byPos := make([]*vrtOrdUp, n)
	for i := range ups {
		ups[i] = &vrtOrdUp{idx: i, pos: perm[i], outcome: vrtChoice(5), turn: &turn}
		byPos[perm[i]] = ups[i]
		uw := newWrapper(i, UpstreamConfig{Addr: "x"}, "")
		uw.u = ups[i]
		f.us = append(f.us, uw)
	}
	q := new(dns.Msg)
	q.Id = vrtU16()
	q.Question = []dns.Question{{Name: "a.", Qtype: dns.TypeA, Qclass: dns.ClassINET}}
	qCtx := query_context.NewContext(q)
	_, perr := qCtx.Q().Pack()
	vrtAssume(perr == nil)
	r, err := f.exchange(context.Background(), qCtx, f.us)
	vrtAtomic(func() { turn = 100 }) // nobody is left waiting
	vrtWaitQuiescent()
	// reference: walk the arrival order
	wantIdx, wantErr := -1, false
	for p := 0; p < n; p++ {
		u := byPos[p]
		if u.outcome <= 1 {
			wantIdx = u.idx
			break
		}
		if p == n-1 {
			if u.outcome == 2 {
				wantIdx = u.idx
			} else {
				wantErr = true
			}
		}
	}
	vrtCover("a good answer arrived", vrtAnd(wantIdx >= 0, !wantErr, byPos[n-1].outcome > 1 || wantIdx != byPos[n-1].idx))
	vrtCover("nothing good: the last exchange decides", vrtOr(wantErr, wantIdx == byPos[n-1].idx))
	if wantErr {
		vrtAssert("no good answer and the last exchange to finish failed or returned garbage: an error, not an earlier reply", vrtAnd(err != nil, r == nil))
	} else {
		vrtAssert("the first good reply to arrive - or, if there is none, the last reply whatever its rcode - is returned", vrtAnd(err == nil, r != nil, r != nil && int(r.Id&0xff) == wantIdx))
	}
}
