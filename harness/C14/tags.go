//go:build verif

package fastforward

import (
	"context"

	"github.com/IrineSistiana/mosdns/v5/pkg/query_context"
	"github.com/IrineSistiana/mosdns/v5/plugin/executable/sequence"
	"github.com/miekg/dns"
	"go.uber.org/zap"
)

// Tag subsets: `forward <tags>` (QuickConfigureExec) queries only the upstreams named by the
// tags, in the order given, with the same clamped concurrency; no tags means every upstream;
// an unknown tag is a configuration error.
func vrtHarness_C14_tags() {
	conc := []int{1, 2, 3}[vrtChoice(3)]
	f := &Forward{args: &Args{Concurrent: conc}, logger: zap.NewNop(), tag2Upstream: map[string]*upstreamWrapper{}}
	tags := []string{"a", "b", ""}
	ups := make([]*vrtUp, len(tags))
	for i, tag := range tags {
		ups[i] = &vrtUp{idx: i, outcome: 0, rel: make(chan struct{})}
		uw := newWrapper(i, UpstreamConfig{Addr: "x", Tag: tag}, "")
		uw.u = ups[i]
		f.us = append(f.us, uw)
		if tag != "" {
			f.tag2Upstream[tag] = uw
		}
	}
	type sel struct {
		args string
		want []int // indices selected; nil with bad == true: configuration error
		bad  bool
	}
	cases := []sel{
		{"", []int{0, 1, 2}, false},
		{"a", []int{0}, false},
		{"b", []int{1}, false},
		{"a b", []int{0, 1}, false},
		{"b  a", []int{1, 0}, false},
		{" a\t", []int{0}, false},
		{"c", nil, true},
		{"a c", nil, true},
	}
	cs := cases[vrtChoice(len(cases))]
	e, err := f.QuickConfigureExec(cs.args)
	if cs.bad {
		vrtCover("unknown tag refused", true)
		vrtAssert("an unknown tag is a configuration error", vrtAnd(err != nil, e == nil))
		return
	}
	vrtAssert("known tags are accepted", vrtAnd(err == nil, e != nil))
	q := new(dns.Msg)
	q.Id = vrtU16()
	q.Question = []dns.Question{{Name: "a.", Qtype: dns.TypeA, Qclass: dns.ClassINET}}
	qCtx := query_context.NewContext(q)
	_, perr := qCtx.Q().Pack()
	vrtAssume(perr == nil) // the query can be packed (decided once per message by the Pack contract)
	xerr := e.(sequence.ExecutableFunc)(context.Background(), qCtx)
	for _, u := range ups {
		close(u.rel)
	}
	vrtWaitQuiescent()
	vrtCover("tag subset queried", len(cs.want) < len(ups))
	vrtAssert("a good upstream answers", vrtAnd(xerr == nil, qCtx.R() != nil))
	total := 0
	for i, u := range ups {
		total += u.calls
		selected := false
		for _, w := range cs.want {
			selected = selected || w == i
		}
		if !selected {
			vrtAssert("an upstream outside the tag subset is never queried", u.calls == 0)
		}
	}
	c := conc
	vrtAssert("exactly clamp(concurrent,1,3) exchanges are started within the subset", total == c)
	lo, hi := c/len(cs.want), (c+len(cs.want)-1)/len(cs.want)
	for _, w := range cs.want {
		vrtAssert("positions wrap around the subset evenly", vrtAnd(ups[w].calls >= lo, ups[w].calls <= hi))
	}
	if r := qCtx.R(); r != nil {
		from := int(r.Id & 0xff)
		ok := false
		for _, w := range cs.want {
			ok = ok || w == from
		}
		vrtAssert("the answer comes from an upstream of the subset", ok)
	}
}
