//go:build verif

package transport

import (
	"context"
	"time"
)

// Non-pipelined transport: caller A, then caller B (sequentially, so the
// connection is reused), optionally a third caller concurrently with B.  Each
// connection's server answers queries in order, one reply per query, and may
// send one surplus reply while the connection is idle.  Every successful call
// returns its own reply; a connection never serves two callers at once.
func vrtHarness_C01_reuse() {
	var conns []*vrtConn
	surplus := vrtChoice(2) == 1
	t := NewReuseConnTransport(ReuseConnOpts{DialContext: func(ctx context.Context) (NetConn, error) {
		var c *vrtConn
		vrtAtomic(func() {
			c = &vrtConn{stream: true}
			conns = append(conns, c)
			n := len(conns)
			go func() { // this connection's server
				vrtDaemon()
				for k := 0; k < 3; k++ {
					kk := k
					vrtAwait(func() bool { return len(c.frames) > kk }, func() {
						c.serverSend(c.frames[kk])
						if surplus && n == 1 && kk == 0 {
							c.serverSend(vrtWire(vrtU16(), 0xEEEE)) // surplus reply: arrives while the connection is idle
						}
					})
				}
			}()
		})
		return c, nil
	}})
	ctx, cancel := context.WithTimeout(context.Background(), 300*time.Millisecond)
	defer cancel()
	ids := [3]uint16{vrtU16(), vrtU16(), vrtU16()}
	check := func(i int, r *[]byte, err error) {
		if err == nil {
			vrtCover("a caller got a reply", true)
			vrtAssert("a successful call returns the reply to its own question", vrtAnd(len(*r) == 14, vrtWireTag(*r) == uint16(100+i)))
			vrtAssert("with the caller's own ID", vrtWireID(*r) == ids[i])
		}
	}
	r, err := t.ExchangeContext(ctx, vrtWire(ids[0], 100))
	vrtAssert("first call on a fresh connection succeeds", err == nil)
	check(0, r, err)
	if surplus {
		// scope of the property: the surplus reply is read while the connection is idle - and must close it
		vrtAwait(func() bool { return conns[0].closed }, func() {})
		vrtCover("surplus reply closed the idle connection", true)
	}
	third := vrtChoice(2) == 1
	done := make(chan struct{})
	if third {
		go func() {
			r, err := t.ExchangeContext(ctx, vrtWire(ids[2], 102))
			check(2, r, err)
			close(done)
		}()
	}
	r, err = t.ExchangeContext(ctx, vrtWire(ids[1], 101))
	check(1, r, err)
	vrtCover("second call done", true)
	if third {
		<-done
	}
	for _, c := range conns {
		for i := range c.frames {
			for j := range c.frames {
				if i != j {
					vrtAssert("no query is sent twice on one connection", vrtWireTag(c.frames[i]) != vrtWireTag(c.frames[j]))
				}
			}
		}
	}
}

// A query is abandoned (context cancelled after it was written); its reply
// arrives late - only after the next caller has sent its own query.  The next
// caller must still get the reply to its own question.
func vrtHarness_C01_reuseCancel() {
	var conns []*vrtConn
	t := NewReuseConnTransport(ReuseConnOpts{DialContext: func(ctx context.Context) (NetConn, error) {
		var c *vrtConn
		vrtAtomic(func() {
			c = &vrtConn{stream: true}
			conns = append(conns, c)
			first := len(conns) == 1
			go func() { // this connection's server
				vrtDaemon()
				for k := 0; k < 2; k++ {
					kk := k
					vrtAwait(func() bool {
						if first && kk == 0 { // the reply to the abandoned query is late: it waits for the next query on this connection
							return len(c.frames) > 1
						}
						return len(c.frames) > kk
					}, func() { c.serverSend(c.frames[kk]) })
				}
			}()
		})
		return c, nil
	}})
	ids := [2]uint16{vrtU16(), vrtU16()}
	ctxX, cancelX := context.WithCancel(context.Background())
	xDone := make(chan error, 1)
	go func() {
		_, err := t.ExchangeContext(ctxX, vrtWire(ids[0], 100))
		xDone <- err
	}()
	vrtAwait(func() bool { return len(conns) > 0 && len(conns[0].frames) > 0 }, func() {})
	cancelX()
	errX := <-xDone
	vrtAssert("the abandoned call ends with its context's error", errX != nil)
	ctx, cancel := context.WithTimeout(context.Background(), 300*time.Millisecond)
	defer cancel()
	r, err := t.ExchangeContext(ctx, vrtWire(ids[1], 101))
	vrtCover("second caller done", true)
	if err == nil {
		vrtCover("second caller got a reply", true)
		vrtAssert("a successful call never returns the late reply of an abandoned query", vrtAnd(len(*r) == 14, vrtWireTag(*r) == 101, vrtWireID(*r) == ids[1]))
	}
}
