//go:build verif

package transport

import (
	"context"
	"time"
)

// Two callers with arbitrary (possibly equal) IDs and distinct questions on one
// pipelined/UDP connection whose wire-ID counter starts anywhere (and is moved
// anywhere again between the two reservations: an arbitrary history of
// intervening queries).  The server is adversarial: up to R actions, each a
// reply to ANY frame seen so far (any order, duplicates) or a stray reply
// whose wire ID matches nothing it was asked.  Every call that succeeds must
// return the reply to its own question with its own ID.
func vrtHarness_C01_tdc() {
	stream := vrtChoice(2) == 1
	conn := &vrtConn{stream: stream}
	dc := NewDnsConn(TraditionalDnsConnOpts{WithLengthHeader: stream, MaxConcurrentQuery: 8}, conn)
	fromTop := vrtChoice(2) == 1 // the counter is near the bottom or near the top of its type, whatever its width
	vrtSetCounter(&dc.nextQid, vrtU16(), fromTop)
	actions := vrtParam("server_actions", 2)
	const strayTag = 0xEEEE

	// ghost: a query the server has not answered yet is certainly still outstanding, so a new
	// query must not get its wire ID.  Reusing the wire ID of a query that was answered (and may
	// have finished) while duplicates of that answer can still arrive is outside the property's scope.
	answered := map[int]bool{}
	var strays []uint16
	conn.onWrite = func(f []byte) {
		for _, id := range strays { // scope: no later query is given the ID of a stray reply already in flight
			vrtAssume(vrtWireID(f) != id)
		}
		for k, old := range conn.frames[:len(conn.frames)-1] {
			if vrtAnd(vrtWireID(old) == vrtWireID(f), vrtWireTag(old) != vrtWireTag(f)) {
				vrtAssert("wire IDs of simultaneously outstanding queries differ", answered[k])
				vrtAssume(false)
			}
		}
	}

	go func() { // the server
		vrtDaemon()
		for a := 0; a < actions; a++ {
			vrtAwait(func() bool { return len(conn.frames) > 0 }, func() {
				n := len(conn.frames)
				k := vrtChoice(n + 1)
				if k < n {
					answered[k] = true
					conn.serverSend(conn.frames[k]) // honest reply to frame k: its wire ID and question
				} else {
					id := vrtU16() // a stray: its ID matches no query of this run
					for _, f := range conn.frames {
						vrtAssume(vrtWireID(f) != id)
					}
					strays = append(strays, id)
					conn.serverSend(vrtWire(id, strayTag))
				}
			})
		}
	}()

	ctx, cancel := context.WithTimeout(context.Background(), 300*time.Millisecond)
	defer cancel()
	type result struct {
		done bool
		r    *[]byte
		err  error
	}
	var res [2]result
	ids := [2]uint16{vrtU16(), vrtU16()}
	for i := 0; i < 2; i++ {
		i := i
		go func() {
			if i == 1 {
				// arbitrary many queries came and went: the counter is anywhere
				dc.queueMu.Lock()
				top2 := fromTop
				if vrtParam("independent_wrap", 0) == 1 {
					top2 = vrtChoice(2) == 1 // thorough: the second position is chosen independently of the first
				}
				vrtSetCounter(&dc.nextQid, vrtU16(), top2)
				dc.queueMu.Unlock()
			}
			ex, _ := dc.ReserveNewQuery()
			if ex == nil {
				return
			}
			r, err := ex.ExchangeReserved(ctx, vrtWire(ids[i], uint16(100+i)))
			vrtAtomic(func() { res[i] = result{true, r, err} })
		}()
	}
	vrtWaitQuiescent()
	vrtCover("both queries outstanding", len(conn.frames) == 2)
	for _, id := range strays { // scope: a stray reply matches none of the wire IDs in use during the run
		for _, f := range conn.frames {
			vrtAssume(vrtWireID(f) != id)
		}
	}
	for i := 0; i < 2; i++ {
		if res[i].done && res[i].err == nil {
			vrtCover("a caller got a reply", true)
			m := *res[i].r
			vrtAssert("a successful call returns the reply to its own question", vrtAnd(len(m) == 14, vrtWireTag(m) == uint16(100+i)))
			vrtAssert("with the caller's own ID restored", vrtWireID(m) == ids[i])
		}
	}
}

// A query is abandoned (context cancelled after it was written) and the very next query
// follows on the same connection - no other query in between.  The reply to the abandoned
// query arrives late, before the reply to the new one.  The new caller gets the reply to
// its own question: the late reply finds no waiter, whatever value the wire-ID counter had.
func vrtHarness_C01_tdcCancel() {
	stream := vrtChoice(2) == 1
	conn := &vrtConn{stream: stream}
	dc := NewDnsConn(TraditionalDnsConnOpts{WithLengthHeader: stream, MaxConcurrentQuery: 8}, conn)
	vrtSetCounter(&dc.nextQid, vrtU16(), vrtChoice(2) == 1)
	ids := [2]uint16{vrtU16(), vrtU16()}
	ctxX, cancelX := context.WithCancel(context.Background())
	xDone := make(chan error, 1)
	go func() {
		ex, _ := dc.ReserveNewQuery()
		if ex == nil {
			xDone <- ErrTDCClosed
			return
		}
		_, err := ex.ExchangeReserved(ctxX, vrtWire(ids[0], 100))
		xDone <- err
	}()
	vrtAwait(func() bool { return len(conn.frames) > 0 }, func() {})
	cancelX()
	vrtAssert("the abandoned call ends with its context's error", <-xDone != nil)
	go func() { // the server: the late reply to the abandoned query, then the reply to the new one
		vrtDaemon()
		vrtAwait(func() bool { return len(conn.frames) > 1 }, func() {
			conn.serverSend(conn.frames[0])
			conn.serverSend(conn.frames[1])
		})
	}()
	ctx, cancel := context.WithTimeout(context.Background(), 300*time.Millisecond)
	defer cancel()
	ex, _ := dc.ReserveNewQuery()
	vrtAssume(ex != nil)
	r, err := ex.ExchangeReserved(ctx, vrtWire(ids[1], 101))
	vrtCover("second caller done", true)
	if err == nil {
		vrtCover("second caller got a reply", true)
		vrtAssert("a successful call never returns the late reply of an abandoned query", vrtAnd(len(*r) == 14, vrtWireTag(*r) == 101, vrtWireID(*r) == ids[1]))
	}
}
