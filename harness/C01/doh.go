//go:build verif

package doh

import (
	"bytes"
	"context"
	"encoding/base64"
	"errors"
	"io"
	"net/http"
	urlpkg "net/url"
	"time"
)

const vrtB64 = "ABCDEFGHIJKLMNOPQRSTUVWXYZabcdefghijklmnopqrstuvwxyz0123456789-_"

var vrtErrHTTP = errors.New("vrt: http round trip failed")

// vrtRT is the HTTP side of a DoH server: it recognises each request by its ?dns= parameter
// and answers it, at an arbitrary moment, with a reply to THAT request's question carrying
// an arbitrary message ID (servers echo 0 or anything else), or fails it.
type vrtRT struct {
	want  []string // expected RawQuery of caller i
	mode  []int    // 0 reply, 1 transport error, 2 HTTP 500, 3 body shorter than a DNS header
	wire  []uint16 // ID the server puts into reply i
	calls int
	stray int
}

func (rt *vrtRT) RoundTrip(req *http.Request) (*http.Response, error) {
	who := -1
	vrtAtomic(func() {
		rt.calls++
		for i, w := range rt.want {
			if req.URL != nil && req.URL.RawQuery == w {
				who = i
			}
		}
		if who < 0 {
			rt.stray++
		}
	})
	vrtYield() // the response arrives at an arbitrary instant
	if who < 0 {
		return nil, vrtErrHTTP
	}
	switch rt.mode[who] {
	case 1:
		return nil, vrtErrHTTP
	case 2:
		return &http.Response{StatusCode: 500, Body: io.NopCloser(bytes.NewReader([]byte("oops")))}, nil
	case 3:
		return &http.Response{StatusCode: 200, Body: io.NopCloser(bytes.NewReader(make([]byte, 7)))}, nil
	}
	body := make([]byte, 14)
	body[0], body[1] = byte(rt.wire[who]>>8), byte(rt.wire[who])
	body[2] = 0x80
	body[12], body[13] = 0, byte(100+who)
	return &http.Response{StatusCode: 200, Body: io.NopCloser(bytes.NewReader(body))}, nil
}

// DoH: concurrent exchanges through one Upstream.  Each request is recognisable on the HTTP
// side only by its DNS payload; a call that succeeds returns the reply to its own question
// with the caller's own message ID restored, whatever ID the server used.
func vrtHarness_C01_doh() {
	base64.RawURLEncoding = base64.NewEncoding(vrtB64).WithPadding(base64.NoPadding) // package initialisers of the standard library are not run by the executor; same value as the real one
	n := 1 + vrtChoice(vrtParam("max_callers", 2))
	rt := &vrtRT{}
	ids := make([]uint16, n)
	qs := make([][]byte, n)
	for i := 0; i < n; i++ {
		ids[i] = vrtU16()
		q := make([]byte, 14)
		q[0], q[1] = byte(ids[i]>>8), byte(ids[i])
		q[12], q[13] = 0, byte(100+i)
		qs[i] = q
		z := append([]byte(nil), q...)
		z[0], z[1] = 0, 0
		rt.want = append(rt.want, "dns="+base64.RawURLEncoding.EncodeToString(z))
		rt.mode = append(rt.mode, vrtChoice(4))
		rt.wire = append(rt.wire, vrtU16())
	}
	u := &urlpkg.URL{Scheme: "https", Host: "dns.example", Path: "/dns-query"}
	up := &Upstream{rt: rt, logger: nopLogger, urlTemplate: u,
		reqTemplate: &http.Request{Method: http.MethodGet, URL: u, Header: http.Header{"Accept": {"application/dns-message"}}}}
	ctx, cancel := context.WithTimeout(context.Background(), 2*time.Second)
	defer cancel()
	type result struct {
		r   *[]byte
		err error
	}
	res := make([]result, n)
	done := make(chan int, n)
	for i := 0; i < n; i++ {
		i := i
		go func() {
			res[i].r, res[i].err = up.ExchangeContext(ctx, qs[i])
			done <- i
		}()
	}
	for i := 0; i < n; i++ {
		<-done
	}
	vrtWaitQuiescent()
	vrtAssert("every request on the wire is one of the callers' queries with the message ID zeroed or kept, nothing else", rt.stray == 0)
	for i := 0; i < n; i++ {
		vrtAssert("the caller's query buffer is left as it was", vrtAnd(qs[i][0] == byte(ids[i]>>8), qs[i][1] == byte(ids[i]), qs[i][13] == byte(100+i)))
		if rt.mode[i] == 0 {
			vrtCover("a caller got a reply", res[i].err == nil)
			vrtAssert("a reply the server produced for this call is returned", res[i].err == nil)
		} else {
			vrtCover("a failed request", true)
			vrtAssert("a failed HTTP exchange is an error, never a reply", vrtAnd(res[i].err != nil, res[i].r == nil))
		}
		if res[i].err == nil && res[i].r != nil {
			m := *res[i].r
			vrtAssert("a successful call returns the reply to its own question", vrtAnd(len(m) == 14, m[13] == byte(100+i)))
			vrtAssert("with the caller's own ID restored", vrtAnd(m[0] == byte(ids[i]>>8), m[1] == byte(ids[i])))
		}
	}
	for i := 0; i < n; i++ {
		for j := i + 1; j < n; j++ {
			if res[i].r != nil && res[j].r != nil {
				vrtAssert("two callers never hold the same reply buffer", res[i].r != res[j].r)
			}
		}
	}
}
