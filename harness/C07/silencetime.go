//go:build verif

package transport

import (
	"context"
	"time"
)

// Silent server, a context that outlives everything: in discrete-event time (timers fire on
// time and in deadline order, computation takes no time) the call is ended by the transport's
// own liveness timers within tens of seconds - retransmissions and re-armed deadlines included.
func vrtHarness_C07_silenceTime() {
	const bound = 20 * time.Second // "tens of seconds at most": twice the longest liveness timeout (10 s)
	kind := vrtChoice(3)
	shortFirst := kind == 1 && vrtChoice(2) == 1 // UDP: a datagram too short to be a DNS message arrives, then nothing
	var conns []*vrtConn
	dial := func(ctx context.Context) (NetConn, error) {
		var c *vrtConn
		vrtAtomic(func() {
			c = &vrtConn{stream: kind != 1, deadlines: true}
			conns = append(conns, c)
			if shortFirst {
				go func() {
					vrtDaemon()
					vrtAwait(func() bool { return len(c.frames) > 0 }, func() { c.serverSend([]byte{1, 2, 3, 4, 5}) })
					vrtCover("short datagram, then silence", true)
				}()
			}
		})
		return c, nil
	}
	var t vrtT
	if kind == 1 {
		// as NewUpstream configures plain UDP: a 5-minute idle timeout
		t = NewPipelineTransport(PipelineOpts{MaxConcurrentQueryWhileDialing: 4, DialContext: func(ctx context.Context) (DnsConn, error) {
			c, err := dial(ctx)
			if err != nil {
				return nil, err
			}
			return NewDnsConn(TraditionalDnsConnOpts{MaxConcurrentQuery: 4, IdleTimeout: 5 * time.Minute}, c), nil
		}})
	} else {
		t = vrtMkTransport(kind, dial)
	}
	// natively the caller's own deadline (22 s) is reached only if the transport never gives up
	ctx, cancel := context.WithTimeout(context.Background(), bound+2*time.Second)
	defer cancel()
	vrtBeyondHorizon()
	if vrtChoice(2) == 1 {
		// an earlier query with a short deadline of its own has already given up on this silent server
		ctx1, cancel1 := context.WithTimeout(context.Background(), time.Second)
		_, err1 := t.ExchangeContext(ctx1, vrtWire(vrtU16(), 99))
		cancel1()
		vrtCover("an earlier query with a short deadline timed out", err1 != nil)
	}
	t0 := time.Now()
	_, err := t.ExchangeContext(ctx, vrtWire(vrtU16(), 100))
	el := time.Since(t0)
	vrtCover("call ended by the transport's own timers", true)
	vrtAssert("a silent server makes the call fail", err != nil)
	vrtAssert("within the transport's own liveness timeouts (tens of seconds at most)", el <= bound)
}
