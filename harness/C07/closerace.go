//go:build verif

package transport

import "context"

// Close racing with the peer closing the connection: a call is pending on an established
// connection; at the same moment the transport is closed and the server closes its side (the
// connection's own failure handling and Close run concurrently).  Close returns, the pending
// call returns with an error, nothing is left running.
func vrtHarness_C07_closeVsPeerClose() {
	kind := vrtChoice(3)
	var conns []*vrtConn
	t := vrtMkTransport(kind, func(ctx context.Context) (NetConn, error) {
		var c *vrtConn
		vrtAtomic(func() {
			c = &vrtConn{stream: kind != 1}
			conns = append(conns, c)
		})
		return c, nil
	})
	done := make(chan error, 1)
	go func() {
		_, err := t.ExchangeContext(context.Background(), vrtWire(1, 100))
		done <- err
	}()
	vrtWaitQuiescent() // the call waits for its reply
	vrtAssume(len(conns) == 1)
	go func() { // the peer closes its side
		vrtAtomic(func() { conns[0].eof = true })
	}()
	t.Close()
	vrtCover("Close returned", true)
	vrtFreezeTimers()
	err := <-done
	vrtAssert("a call pending at Close returns with an error", err != nil)
	vrtWaitQuiescent()
	vrtAssert("every connection is closed", conns[0].closed)
	vrtAssert("every goroutine the transport created has ended", vrtLiveThreads() == 0)
}
