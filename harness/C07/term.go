//go:build verif

package transport

import (
	"context"
	"errors"
	"time"
)

type vrtT interface {
	ExchangeContext(ctx context.Context, m []byte) (*[]byte, error)
	Close() error
}

// vrtMkTransport builds a pipelined (lazy dial + TraditionalDnsConn; stream or datagram
// framing) or non-pipelined transport whose dial function is the harness's.
func vrtMkTransport(kind int, dial func(ctx context.Context) (NetConn, error)) vrtT {
	switch kind {
	case 0, 1:
		return NewPipelineTransport(PipelineOpts{MaxConcurrentQueryWhileDialing: 4, DialContext: func(ctx context.Context) (DnsConn, error) {
			c, err := dial(ctx)
			if err != nil {
				return nil, err
			}
			return NewDnsConn(TraditionalDnsConnOpts{WithLengthHeader: kind == 0, MaxConcurrentQuery: 4}, c), nil
		}})
	}
	return NewReuseConnTransport(ReuseConnOpts{DialContext: dial})
}

var vrtErrDial = errors.New("vrt: dial failed")

// One call on a fresh connection that fails in one of the ways a connection can fail; the
// context never ends: the call returns, with an error (a failure on a connection opened for
// the call is reported, not retried forever), and never a reply the server did not send.
// fault: 0 dial error, 1 error on the write, 2 EOF instead of a reply, 3 read error instead
// of a reply, 4 frame announcing less than a DNS header (stream) / a short datagram then EOF,
// 5 garbage frame whose ID matches nothing, then EOF.
func vrtHarness_C07_fault() {
	kind := vrtChoice(3)
	fault := vrtChoice(6)
	var conns []*vrtConn
	t := vrtMkTransport(kind, func(ctx context.Context) (NetConn, error) {
		if fault == 0 {
			return nil, vrtErrDial
		}
		var c *vrtConn
		vrtAtomic(func() {
			c = &vrtConn{stream: kind != 1}
			if fault == 1 {
				c.wrErrAt = 1
			}
			conns = append(conns, c)
			go func() { // the faulty server
				vrtDaemon()
				vrtAwait(func() bool { return len(c.frames) > 0 }, func() {
					switch fault {
					case 2:
						c.eof = true
					case 3:
						c.rdErr = true
					case 4:
						if c.stream {
							c.rx = append(c.rx, 0, byte(vrtU8()%13)) // announced length 0..12
							c.rx = append(c.rx, vrtBytes(12)...)
						} else {
							c.rxFrame = append(c.rxFrame, vrtBytes(vrtChoice(12)))
						}
						c.eof = true
					case 5:
						g := vrtWire(vrtWireID(c.frames[0])+1, 0xEEEE)
						c.serverSend(g)
						c.eof = true
					}
				})
			}()
		})
		return c, nil
	})
	r, err := t.ExchangeContext(context.Background(), vrtWire(vrtU16(), 100))
	vrtCover("call returned", true)
	if kind == 2 && fault == 5 {
		// non-pipelined: the only reply on the connection is taken as the answer (no ID matching on that transport)
		vrtAssert("the call returns", true)
	} else {
		vrtAssert("a connection failure yields an error, never a reply that was not sent", vrtAnd(err != nil, r == nil))
	}
	vrtWaitQuiescent()
	for _, c := range conns {
		if fault >= 1 {
			vrtAssert("the failed connection is closed", c.closed)
		}
	}
}

// The caller's context is cancelled at an arbitrary point of a call whose server stays
// silent (or whose dial blocks): the call returns promptly - with no further help from the
// environment (timers are frozen once the context has ended).
func vrtHarness_C07_cancel() {
	kind := vrtChoice(3)
	dialBlocks := vrtChoice(2) == 1
	var conns []*vrtConn
	t := vrtMkTransport(kind, func(ctx context.Context) (NetConn, error) {
		if dialBlocks {
			<-ctx.Done() // a dial that hangs until its own (dial) context ends
			return nil, ctx.Err()
		}
		var c *vrtConn
		vrtAtomic(func() {
			c = &vrtConn{stream: kind != 1}
			conns = append(conns, c)
		})
		return c, nil
	})
	ctx, cancel := context.WithCancel(context.Background())
	go func() {
		vrtYield()
		cancel()
		vrtFreezeTimers()
	}()
	r, err := t.ExchangeContext(ctx, vrtWire(vrtU16(), 100))
	vrtCover("call returned after cancellation", true)
	vrtAssert("a cancelled call returns an error", vrtAnd(err != nil, r == nil))
	cancel()
}

// Close with a call pending on a silent server: the pending call returns with an error, later
// calls fail at once without dialing, every connection was closed and every goroutine the
// transport created has ended.
func vrtHarness_C07_close() {
	kind := vrtChoice(3)
	dialMode := vrtChoice(3)
	dialBlocks := dialMode == 1
	closeReturned := false
	var conns []*vrtConn
	dials := 0
	t := vrtMkTransport(kind, func(ctx context.Context) (NetConn, error) {
		vrtAtomic(func() { dials++ })
		if dialMode == 2 {
			// a dial that was under way when Close ran and still completes with a connection
			vrtAwait(func() bool { return closeReturned }, func() {})
			vrtCover("dial completes after Close", true)
		}
		if dialBlocks {
			<-ctx.Done() // a dial in progress: ends only when the transport cancels it
			return nil, ctx.Err()
		}
		var c *vrtConn
		vrtAtomic(func() {
			c = &vrtConn{stream: kind != 1}
			conns = append(conns, c)
		})
		return c, nil
	})
	done := make(chan error, 1)
	go func() {
		_, err := t.ExchangeContext(context.Background(), vrtWire(1, 100))
		done <- err
	}()
	if dialMode == 0 && vrtChoice(2) == 1 {
		// the peer closes its side at an arbitrary moment: the connection's own failure handling may run
		// at the same time as Close
		go func() {
			vrtDaemon()
			vrtAwait(func() bool { return len(conns) > 0 }, func() { conns[0].eof = true })
			vrtCover("peer closed while the transport was being closed", true)
		}()
	}
	if vrtChoice(2) == 1 {
		vrtWaitQuiescent() // the call is waiting for its reply ...
	} // ... or Close races with the call at any earlier point
	t.Close()
	vrtAtomic(func() { closeReturned = true })
	vrtFreezeTimers()
	err := <-done
	vrtCover("pending call returned", true)
	vrtAssert("a call pending at Close returns with an error", err != nil)
	before := dials
	_, err = t.ExchangeContext(context.Background(), vrtWire(2, 101))
	vrtAssert("calls after Close fail with ErrClosedTransport", err == ErrClosedTransport)
	vrtAssert("and do not dial", dials == before)
	vrtWaitQuiescent()
	for _, c := range conns {
		vrtAssert("every connection is closed", c.closed)
	}
	vrtAssert("every goroutine the transport created has ended", vrtLiveThreads() == 0)
}

// Silent server, unbounded context: the transport's own liveness timers (read deadlines) end
// the call.  Timers may fire at any point; the call must not depend on anything else.
func vrtHarness_C07_silence() {
	kind := vrtChoice(3)
	var conns []*vrtConn
	t := vrtMkTransport(kind, func(ctx context.Context) (NetConn, error) {
		var c *vrtConn
		vrtAtomic(func() {
			c = &vrtConn{stream: kind != 1, deadlines: true}
			conns = append(conns, c)
		})
		return c, nil
	})
	_, err := t.ExchangeContext(context.Background(), vrtWire(vrtU16(), 100))
	vrtCover("call ended by the transport's own timers", true)
	vrtAssert("a silent server makes the call fail once the liveness timeout has passed", err != nil)
	_ = time.Second
}

// A query gives up (context cancelled) while its pipelined connection is still dialing; the
// dial then succeeds.  Later queries and Close must still return.
func vrtHarness_C07_cancelWhileDialing() {
	released := false
	var conns []*vrtConn
	t := vrtMkTransport(0, func(ctx context.Context) (NetConn, error) {
		var c *vrtConn
		vrtAwait(func() bool { return released }, func() {
			c = &vrtConn{stream: true}
			conns = append(conns, c)
			go func() { // echo server
				vrtDaemon()
				for k := 0; k < 2; k++ {
					kk := k
					vrtAwait(func() bool { return len(c.frames) > kk }, func() { c.serverSend(c.frames[kk]) })
				}
			}()
		})
		return c, nil
	})
	ctxX, cancelX := context.WithCancel(context.Background())
	xDone := make(chan error, 1)
	go func() {
		_, err := t.ExchangeContext(ctxX, vrtWire(1, 200))
		xDone <- err
	}()
	vrtWaitQuiescent() // the query is queued on the dialing connection
	cancelX()
	vrtAssert("the abandoned query returns with an error", <-xDone != nil)
	vrtAtomic(func() { released = true }) // the dial completes
	vrtWaitQuiescent()
	ctx, cancel := context.WithTimeout(context.Background(), 2*time.Second)
	defer cancel()
	r, err := t.ExchangeContext(ctx, vrtWire(2, 100))
	vrtCover("later query returned", true)
	vrtAssert("a later query is served", vrtAnd(err == nil, r != nil))
	t.Close()
	vrtCover("close returned", true)
	vrtWaitQuiescent()
	for _, c := range conns {
		vrtAssert("every connection is closed", c.closed)
	}
	vrtAssert("every goroutine the transport created has ended", vrtLiveThreads() == 0)
}

// Several queries queue on a dialing connection whose real limit turns out smaller (1): one
// is sent, the others are refused and retried elsewhere; the server stays silent.  Close
// must wake every pending query, close every connection and leave no goroutine.
func vrtHarness_C07_closeQueued() {
	released := false
	var conns []*vrtConn
	t := NewPipelineTransport(PipelineOpts{MaxConcurrentQueryWhileDialing: 4, DialContext: func(ctx context.Context) (DnsConn, error) {
		var c *vrtConn
		vrtAwait(func() bool { return released }, func() {
			c = &vrtConn{stream: true}
			conns = append(conns, c)
		})
		return NewDnsConn(TraditionalDnsConnOpts{WithLengthHeader: true, MaxConcurrentQuery: 1}, c), nil
	}})
	k := vrtParam("queued", 3)
	pending, failed := 0, 0
	for i := 0; i < k; i++ {
		i := i
		go func() {
			vrtAtomic(func() { pending++ })
			_, err := t.ExchangeContext(context.Background(), vrtWire(uint16(i), uint16(100+i)))
			vrtAtomic(func() {
				pending--
				if err != nil {
					failed++
				}
			})
		}()
	}
	vrtWaitQuiescent()
	vrtAtomic(func() { released = true })
	vrtWaitQuiescent() // the server is silent: whoever got through waits for a reply
	t.Close()
	vrtFreezeTimers()
	vrtWaitQuiescent()
	vrtCover("closed with queries in flight", true)
	vrtAssert("every call pending at Close returns with an error", vrtAnd(pending == 0, failed == k))
	for _, c := range conns {
		vrtAssert("every connection is closed", c.closed)
	}
	vrtAssert("every goroutine the transport created has ended", vrtLiveThreads() == 0)
}
