//go:build verif

package domain

import (
	"bytes"
	"strings"
)

// ---- reference (written from the property text, byte level, no strings package) ----

func vrtLower(c byte) byte {
	return byte(vrtIteU64(vrtAnd(c >= 'A', c <= 'Z'), uint64(c)+32, uint64(c)))
}

// normalised form: lower case, one trailing dot removed (lengths are concrete)
func vrtNorm(s string) []byte {
	n := len(s)
	if n > 0 && s[n-1] == '.' {
		n--
	}
	out := make([]byte, n)
	for i := 0; i < n; i++ {
		out[i] = vrtLower(s[i])
	}
	return out
}

func vrtEqAt(name []byte, off int, pat []byte) bool {
	if off < 0 || off+len(pat) > len(name) {
		return false
	}
	r := true
	for i := range pat {
		r = vrtAnd(r, name[off+i] == pat[i])
	}
	return r
}

func vrtFullMatch(name, pat []byte) bool { return len(name) == len(pat) && vrtEqAt(name, 0, pat) }

// the name itself or any subdomain on a label boundary
func vrtDomainMatch(name, pat []byte) bool {
	if len(name) == len(pat) {
		return vrtEqAt(name, 0, pat)
	}
	if len(name) < len(pat)+2 {
		return false
	}
	off := len(name) - len(pat)
	return vrtAnd(name[off-1] == '.', vrtEqAt(name, off, pat))
}

func vrtKeywordMatch(name, pat []byte) bool {
	r := false
	for off := 0; off+len(pat) <= len(name); off++ {
		r = vrtOr(r, vrtEqAt(name, off, pat))
	}
	return r
}

// regular expressions of the modelled class: literals and '.', unanchored; applied to the normalised name
func vrtRegexpMatch(name []byte, raw string) bool {
	r := false
	for off := 0; off+len(raw) <= len(name); off++ {
		m := true
		for i := 0; i < len(raw); i++ {
			m = vrtAnd(m, vrtOr(raw[i] == '.', raw[i] == name[off+i]))
		}
		r = vrtOr(r, m)
	}
	return r
}

// a symbolic domain-like string: labels non-empty, letters from {a, b, A}, optional trailing
// dot.  The positions of the dots are chosen (forked), the letters are symbolic.
func vrtDomainText(n int, trailingDot bool) string {
	b := make([]byte, 0, n+1)
	prevDot := true
	single := vrtParam("single_letter_labels", 0) == 1 // deep-nesting variant: a.b.c.d, no choice of dot positions
	for i := 0; i < n; i++ {
		if !prevDot && i < n-1 && (single || vrtChoice(2) == 1) {
			b = append(b, '.')
			prevDot = true
			continue
		}
		if single {
			b = append(b, byte(vrtIteU64(vrtBool(), 'a', 'b'))) // deep variant: two letters, case is covered by the other variants
		} else {
			b = append(b, byte(vrtIteU64(vrtBool(), 'a', vrtIteU64(vrtBool(), 'b', 'A'))))
		}
		prevDot = false
	}
	if trailingDot {
		b = append(b, '.')
	}
	return string(b)
}

type vrtRule struct {
	typ  int // 0 default, 1 full, 2 domain, 3 keyword, 4 regexp
	pat  string
	norm []byte
}

func vrtHarness_C12_mix() {
	K := vrtParam("rules", 2)
	maxPat, maxName := vrtParam("max_pattern", 3), vrtParam("max_name", 4)
	prefixes := []string{"", "full:", "domain:", "keyword:", "regexp:"}
	names := []string{"", MatcherFull, MatcherDomain, MatcherKeyword, MatcherRegexp}
	m := NewMixMatcher[int]()
	only := vrtParam("only_type", 0) // > 0: every rule has this type (deeper patterns at the same cost)
	def := only
	if only == 0 {
		def = 1 + vrtChoice(4)
	}
	m.SetDefaultMatcher(names[def])
	var rules []vrtRule
	viaReader := vrtParam("via_reader", 0) == 2 || (vrtParam("via_reader", 0) == 1 && vrtChoice(2) == 1)
	text := "# rules\n\n"
	for i := 0; i < K; i++ {
		typ := only
		if only == 0 {
			typ = vrtChoice(5)
		} else if vrtParam("plain", 0) == 0 && vrtChoice(2) == 1 {
			typ = 0 // no prefix: the default type (= the same type)
		}
		eff := typ
		if eff == 0 {
			eff = def
		}
		n := 1 + vrtChoice(maxPat)
		if mp := vrtParam("min_pattern", 0); mp > 0 {
			n = mp + 2*vrtChoice((maxPat-mp)/2+1) // odd lengths only: a.b.c ... (deep-nesting variant)
		}
		var pat string
		if eff == 4 {
			pat = vrtDomainText(n, false) // regexp: lower/upper letters and '.', applied as written
		} else {
			pat = vrtDomainText(n, vrtParam("plain", 0) == 0 && vrtChoice(2) == 1)
		}
		if viaReader {
			text += "  " + prefixes[typ] + pat + " \t# rule\n\n"
		} else {
			vrtAssume(Load[int](m, prefixes[typ]+pat, func(s string) (string, int, error) { return s, i + 1, nil }) == nil)
		}
		rules = append(rules, vrtRule{typ: eff, pat: pat, norm: vrtNorm(pat)})
	}
	if viaReader {
		// the same rules as a text file: comment lines, blank lines, indentation, trailing blanks and comments
		if vrtChoice(2) == 1 {
			// ... and more text behind them than the line scanner's buffer holds (4 KiB): the scanner
			// moves its buffer contents, which must not touch rules loaded earlier
			text += "#" + string(bytes.Repeat([]byte{'x'}, 4200)) + "\n# end\n"
			vrtCover("rule file larger than the scanner buffer", true)
		}
		line := 0
		vrtAssume(LoadFromTextReader[int](m, strings.NewReader(text), func(s string) (string, int, error) { line++; return s, line, nil }) == nil)
		vrtCover("rules loaded from a text reader", true)
	}
	nameLen := 1 + vrtChoice(maxName)
	if vrtParam("plain", 0) == 1 {
		nameLen = 1 + 2*vrtChoice((maxName+1)/2) // odd lengths: whole single-letter labels
	}
	name := vrtDomainText(nameLen, vrtParam("plain", 0) == 0 && vrtChoice(2) == 1)
	nn := vrtNorm(name)

	got, ok := m.Match(name)

	// precedence: full > longest domain > regexp > keyword; later rules overwrite equal patterns
	// (computed without branching on symbolic conditions)
	full, dom, domLen := uint64(0), uint64(0), uint64(0)
	re, kw := false, false
	reHit, kwHit := make([]bool, len(rules)), make([]bool, len(rules))
	for i, r := range rules {
		switch r.typ {
		case 1:
			full = vrtIteU64(vrtFullMatch(nn, r.norm), uint64(i+1), full)
		case 2:
			better := vrtAnd(vrtDomainMatch(nn, r.norm), vrtOr(dom == 0, uint64(len(r.norm)) >= domLen))
			dom = vrtIteU64(better, uint64(i+1), dom)
			domLen = vrtIteU64(better, uint64(len(r.norm)), domLen)
		case 3:
			kwHit[i] = vrtKeywordMatch(nn, r.norm)
			kw = vrtOr(kw, kwHit[i])
		case 4:
			reHit[i] = vrtRegexpMatch(nn, r.pat)
			re = vrtOr(re, reHit[i])
		}
	}
	want := vrtOr(full != 0, dom != 0, re, kw)
	vrtCover("matched", ok)
	vrtCover("not matched", !ok)
	vrtAssert("a name matches iff some rule describes it", ok == want)
	if ok {
		g := uint64(got)
		inRe, inKw := false, false
		for i := range rules {
			inRe = vrtOr(inRe, vrtAnd(reHit[i], g == uint64(i+1)))
			inKw = vrtOr(inKw, vrtAnd(kwHit[i], g == uint64(i+1)))
		}
		if only == 0 {
			vrtCover("full match wins", full != 0)
		}
		vrtCover("longest domain rule wins", vrtAnd(full == 0, dom != 0))
		vrtAssert("value: full match, else longest matching domain rule, else a matching regexp, else a matching keyword", vrtOr(
			vrtAnd(full != 0, g == full),
			vrtAnd(full == 0, dom != 0, g == dom),
			vrtAnd(full == 0, dom == 0, re, inRe),
			vrtAnd(full == 0, dom == 0, !re, kw, inKw)))
	}
}
