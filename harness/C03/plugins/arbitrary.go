//go:build verif

package zone_file

import "github.com/miekg/dns"

// The `arbitrary` plugin answers from zone-file records (Matcher.Reply).  The table is built
// directly (the zone-file lexer is outside the claim); the query is symbolic.
func vrtHarness_C03_arbitrary() {
	a1 := &dns.A{Hdr: dns.RR_Header{Name: "a.example.", Rrtype: dns.TypeA, Class: dns.ClassINET, Ttl: 3600}, A: []byte{192, 0, 2, 1}}
	a2 := &dns.A{Hdr: dns.RR_Header{Name: "A.example.", Rrtype: dns.TypeA, Class: dns.ClassINET, Ttl: 60}, A: []byte{192, 0, 2, 2}}
	t1 := &dns.TXT{Hdr: dns.RR_Header{Name: "t.example.", Rrtype: dns.TypeTXT, Class: dns.ClassCHAOS, Ttl: 1}, Txt: []string{"x"}}
	m := &Matcher{m: map[dns.Question][]dns.RR{
		{Name: "a.example.", Qtype: dns.TypeA, Qclass: dns.ClassINET}:     {a1, a2},
		{Name: "t.example.", Qtype: dns.TypeTXT, Qclass: dns.ClassCHAOS}: {t1},
	}}
	q, snap := vrtLocalQuery([]string{"a.example.", "A.EXAMPLE.", "t.example.", "other.test."})
	if vrtChoice(2) == 1 {
		q.Question[0].Qtype, q.Question[0].Qclass = dns.TypeTXT, dns.ClassCHAOS
		snap.qtype, snap.qclass = dns.TypeTXT, dns.ClassCHAOS
	}
	r := m.Reply(q)
	vrtAssert("the query is left as it was", vrtAnd(q.Id == snap.id, len(q.Question) == 1, q.Question[0].Name == snap.name,
		q.Question[0].Qtype == snap.qtype, q.Question[0].Qclass == snap.qclass, !q.Response))
	if r == nil {
		return
	}
	vrtCover("local answer generated", true)
	vrtAssert("a locally generated answer carries the query's ID", r.Id == snap.id)
	vrtAssert("and the query's question unchanged", vrtAnd(len(r.Question) == 1, r.Question[0].Name == snap.name,
		r.Question[0].Qtype == snap.qtype, r.Question[0].Qclass == snap.qclass))
	vrtAssert("and is a response to a standard query", vrtAnd(r.Response, r.Opcode == dns.OpcodeQuery, r.Rcode == dns.RcodeSuccess))
}
