//go:build verif

package dual_selector

import (
	"context"

	"github.com/IrineSistiana/mosdns/v5/pkg/query_context"
	"github.com/IrineSistiana/mosdns/v5/plugin/executable/sequence"
	"github.com/miekg/dns"
	"go.uber.org/zap"
)

// vrtDualUp answers A and/or AAAA for the name, echoing ID and question of the query it is shown.
type vrtDualUp struct{ hasA, hasAAAA bool }

func (u *vrtDualUp) Exec(ctx context.Context, qCtx *query_context.Context) error {
	vrtYield()
	q := qCtx.Q()
	r := new(dns.Msg)
	r.SetReply(q)
	qt := q.Question[0].Qtype
	hdr := dns.RR_Header{Name: q.Question[0].Name, Rrtype: qt, Class: dns.ClassINET, Ttl: 60}
	switch {
	case qt == dns.TypeA && u.hasA:
		r.Answer = []dns.RR{&dns.A{Hdr: hdr, A: []byte{192, 0, 2, 1}}}
	case qt == dns.TypeAAAA && u.hasAAAA:
		r.Answer = []dns.RR{&dns.AAAA{Hdr: hdr, AAAA: make([]byte, 16)}}
	}
	qCtx.SetResponse(r)
	return nil
}

// prefer_ipv4 / prefer_ipv6: whichever way the two sub-queries race, the reply left in the
// context carries the query's own ID and question (type included) and the query is unchanged.
func vrtHarness_C03_dualSelector() {
	prefer := []uint16{dns.TypeA, dns.TypeAAAA}[vrtChoice(2)]
	s := newSelector(sequence.NewBQ(nil, zap.NewNop()), prefer)
	up := &vrtDualUp{hasA: vrtChoice(2) == 1, hasAAAA: vrtChoice(2) == 1}
	next := sequence.NewChainWalker([]*sequence.ChainNode{{E: up}}, nil)
	rounds := 1 + vrtChoice(2) // the second round finds the selector's cache warm
	for i := 0; i < rounds; i++ {
		q, snap := vrtLocalQuery([]string{"a.example."})
		qCtx := query_context.NewContext(q)
		err := s.Exec(context.Background(), qCtx, next)
		vrtAssert("no error", err == nil)
		vrtCheckLocalAnswerLoose(qCtx.Q(), snap, qCtx.R())
		vrtWaitQuiescent()
	}
}

// like vrtCheckLocalAnswer, without the requirement on answer records (upstream answers pass through)
func vrtCheckLocalAnswerLoose(q *dns.Msg, s vrtQSnap, r *dns.Msg) {
	vrtAssert("the query is left as it was", vrtAnd(q.Id == s.id, len(q.Question) == 1, q.Question[0].Name == s.name,
		q.Question[0].Qtype == s.qtype, q.Question[0].Qclass == s.qclass))
	vrtAssert("an answer is left in the context", r != nil)
	if r == nil {
		return
	}
	vrtCover("answer checked", true)
	vrtAssert("the answer carries the query's ID", r.Id == s.id)
	vrtAssert("and the query's question unchanged (type included)", vrtAnd(len(r.Question) == 1, r.Question[0].Name == s.name,
		r.Question[0].Qtype == s.qtype, r.Question[0].Qclass == s.qclass))
	vrtAssert("and is a response", r.Response)
}
