//go:build verif

package dnsutils

func vrtHarness_C03_emptyReply() {
	q, snap := vrtLocalQuery([]string{"a.example.", "A.Example."})
	rc := int(vrtU16() & 0xf)
	r := GenEmptyReply(q, rc)
	vrtAssert("an answer is generated", r != nil)
	vrtCheckLocalAnswer(q, snap, r)
	vrtAssert("with the requested rcode and a SOA in the authority section", vrtAnd(r.Rcode == rc, len(r.Ns) == 1, len(r.Answer) == 0))
}
