//go:build verif

package hosts

import (
	"github.com/IrineSistiana/mosdns/v5/pkg/matcher/domain"
)

func vrtHarness_C03_hosts() {
	m := domain.NewMixMatcher[*IPs]()
	m.SetDefaultMatcher(domain.MatcherFull)
	for _, rule := range []string{"a.example 192.0.2.1 2001:db8::1", "domain:v4only.example 192.0.2.7", "keyword:six 2001:db8::6"} {
		vrtAssume(domain.Load[*IPs](m, rule, ParseIPs) == nil)
	}
	h := NewHosts(m)
	q, snap := vrtLocalQuery([]string{"a.example.", "A.EXAMPLE.", "x.v4only.example.", "six.test.", "other.test."})
	r := h.LookupMsg(q)
	vrtCheckLocalAnswer(q, snap, r)
}
