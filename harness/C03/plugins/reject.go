//go:build verif

package sequence

import (
	"context"

	"github.com/IrineSistiana/mosdns/v5/pkg/query_context"
)

func vrtHarness_C03_reject() {
	q, snap := vrtLocalQuery([]string{"a.example.", "A.Example."})
	qCtx := query_context.NewContext(q)
	rc := int(vrtU16() & 0xfff)
	a := ActionReject{Rcode: rc}
	vrtAssert("no error", a.Exec(context.Background(), qCtx, ChainWalker{}) == nil)
	r := qCtx.R()
	vrtAssert("reject always answers", r != nil)
	vrtCheckLocalAnswer(qCtx.Q(), snap, r)
	vrtAssert("with the configured rcode", r.Rcode == rc)
}
