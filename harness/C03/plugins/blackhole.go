//go:build verif

package black_hole

import (
	"context"

	"github.com/IrineSistiana/mosdns/v5/pkg/query_context"
)

func vrtHarness_C03_blackHole() {
	ips := [][]string{{"192.0.2.1"}, {"2001:db8::1"}, {"192.0.2.1", "2001:db8::1", "192.0.2.2"}, {}}[vrtChoice(4)]
	b, err := NewBlackHole(ips)
	vrtAssume(err == nil)
	q, snap := vrtLocalQuery([]string{"a.example.", "A.Example."})
	qCtx := query_context.NewContext(q)
	vrtAssert("no error", b.Exec(context.Background(), qCtx) == nil)
	vrtCheckLocalAnswer(qCtx.Q(), snap, qCtx.R())
}
