//go:build verif

package server

import (
	"context"
	"errors"
	"io"
	"net"
	"os"
	"time"

	"github.com/miekg/dns"
)

// harness side of one accepted TCP connection: the client's bytes become readable at
// once, everything the server writes is kept as it was written
type vrtSrvConn struct {
	rx     []byte
	eof    bool
	writes  [][]byte
	partial []bool // writes[i] was cut short by a write deadline
	wdlSet  bool
	closed  bool
}

type vrtAddr struct{}

func (vrtAddr) Network() string { return "vrt" }
func (vrtAddr) String() string  { return "vrt" }

var vrtErrClosed = errors.New("vrt: use of closed connection")

func (c *vrtSrvConn) Read(p []byte) (n int, err error) {
	vrtAwait(func() bool { return vrtOr(len(c.rx) > 0, c.eof, c.closed) }, func() {
		switch {
		case c.closed:
			err = vrtErrClosed
		case len(c.rx) > 0:
			n = copy(p, c.rx)
			c.rx = c.rx[n:]
		default:
			err = io.EOF
		}
	})
	return
}
func (c *vrtSrvConn) Write(p []byte) (n int, err error) {
	// like a socket: without a write deadline a Write completes (or the connection is dead);
	// with one it may time out after part of the bytes went out - the connection stays usable
	cut := c.wdlSet && len(p) > 5 && vrtChoice(2) == 1
	vrtAtomic(func() {
		if c.closed {
			err = vrtErrClosed
			return
		}
		if cut {
			c.writes = append(c.writes, append([]byte(nil), p[:5]...))
			c.partial = append(c.partial, true)
			n, err = 5, os.ErrDeadlineExceeded
			return
		}
		c.writes = append(c.writes, append([]byte(nil), p...))
		c.partial = append(c.partial, false)
		n = len(p)
	})
	return
}
func (c *vrtSrvConn) Close() error                       { vrtAtomic(func() { c.closed = true }); return nil }
func (c *vrtSrvConn) LocalAddr() net.Addr                { return vrtAddr{} }
func (c *vrtSrvConn) RemoteAddr() net.Addr               { return vrtAddr{} }
func (c *vrtSrvConn) SetDeadline(t time.Time) error      { return c.SetWriteDeadline(t) }
func (c *vrtSrvConn) SetReadDeadline(t time.Time) error  { return nil }
func (c *vrtSrvConn) SetWriteDeadline(t time.Time) error {
	vrtAtomic(func() { c.wdlSet = !t.IsZero() })
	return nil
}

type vrtListener struct {
	pending []*vrtSrvConn
	closed  bool
}

func (l *vrtListener) Accept() (c net.Conn, err error) {
	vrtAwait(func() bool { return vrtOr(len(l.pending) > 0, l.closed) }, func() {
		if len(l.pending) > 0 {
			c, l.pending = l.pending[0], l.pending[1:]
		} else {
			err = vrtErrClosed
		}
	})
	return
}
func (l *vrtListener) Close() error   { vrtAtomic(func() { l.closed = true }); return nil }
func (l *vrtListener) Addr() net.Addr { return vrtAddr{} }

// the plugin side: answers in an order of the scheduler's choosing (each query is held until
// released), with the query's ID, or produces nothing for one chosen query
type vrtHandler struct {
	seen     []uint16
	fromUDP  bool
	release  []bool
	dropIdx  int
	ctxAlive int
}

func (h *vrtHandler) Handle(ctx context.Context, q *dns.Msg, meta QueryMeta, pack func(m *dns.Msg) (*[]byte, error)) *[]byte {
	idx := 0
	vrtAtomic(func() {
		idx = len(h.seen)
		h.seen = append(h.seen, q.Id)
		h.fromUDP = h.fromUDP || meta.FromUDP
		if ctx.Err() == nil {
			h.ctxAlive++
		}
	})
	vrtAwait(func() bool { return idx < len(h.release) && h.release[idx] }, func() {})
	if idx == h.dropIdx {
		return nil
	}
	r := new(dns.Msg)
	r.Id, r.Response, r.Rcode = q.Id, true, int(q.Id&3)
	b, err := pack(r)
	if err != nil {
		return nil
	}
	return b
}

// ServeTCP: k pipelined header-only queries with arbitrary IDs arrive on one connection
// (all at once, or the next only after the previous reply); the handler answers in any
// order.  Every query gets exactly one reply frame with its own ID, each frame is written
// whole by one Write with a correct length prefix, a query for which the handler produced
// nothing makes the server drop the connection (no DNS reply), a frame that does not parse gets no
// reply, and after the client has gone the server closes the connection.
func vrtHarness_C03_serveTCP() {
	k := 1 + vrtChoice(vrtParam("max_queries", 2))
	ids := make([]uint16, k)
	for i := range ids {
		ids[i] = vrtU16()
	}
	garbage := vrtChoice(2) == 1 // the last frame is shorter than a DNS header
	c := &vrtSrvConn{}
	l := &vrtListener{pending: []*vrtSrvConn{c}}
	h := &vrtHandler{release: make([]bool, k), dropIdx: -1}
	if vrtChoice(2) == 1 {
		h.dropIdx = vrtChoice(k)
	}
	srvDone := make(chan error, 1)
	go func() { srvDone <- ServeTCP(l, h, TCPServerOpts{}) }()
	send := func(i int) {
		vrtAtomic(func() {
			m := make([]byte, 13) // a header with zero counts and one trailing byte (12-byte frames are refused by the framer)
			m[0], m[1] = byte(ids[i]>>8), byte(ids[i])
			if garbage && i == k-1 {
				m = m[:5]
			}
			c.rx = append(c.rx, byte(len(m)>>8), byte(len(m)))
			c.rx = append(c.rx, m...)
		})
	}
	for i := 0; i < k; i++ {
		send(i)
	}
	vrtWaitQuiescent()
	wantSeen := k
	if garbage {
		wantSeen = k - 1
	}
	vrtAssert("every well-formed query reaches the handler once, a frame that does not parse never does", len(h.seen) == wantSeen)
	vrtAssert("queries arriving over TCP are not marked as UDP", !h.fromUDP)
	// release the handlers in any order
	order := vrtChoice(2)
	for j := 0; j < wantSeen; j++ {
		i := j
		if order == 1 {
			i = wantSeen - 1 - j
		}
		vrtAtomic(func() { h.release[i] = true })
		vrtWaitQuiescent()
	}
	vrtAtomic(func() { c.eof = true })
	vrtWaitQuiescent()
	vrtCover("queries served", true)
	dropped := h.dropIdx >= 0 && h.dropIdx < wantSeen
	cutShort := false
	for _, p := range c.partial {
		cutShort = cutShort || p
	}
	if !dropped && !garbage && !cutShort {
		vrtAssert("exactly one reply per query", len(c.writes) == k)
	}
	vrtAssert("never more replies than queries", len(c.writes) <= wantSeen)
	used := make([]bool, k)
	for i, w := range c.writes {
		if c.partial[i] {
			vrtCover("a reply was cut short by a write deadline", true)
			// the client has received part of a frame: nothing else may follow on this stream
			vrtAssert("nothing is written after a frame that went out only in part: every frame a client reads is intact", i == len(c.writes)-1)
			continue
		}
		vrtAssert("each Write is one whole frame: 2-byte length prefix + a message of exactly that length", vrtAnd(len(w) == 14, w[0] == 0, w[1] == 12))
		if len(w) != 14 {
			continue
		}
		id := uint16(w[2])<<8 | uint16(w[3])
		vrtAssert("a reply has QR set", w[4]&0x80 != 0)
		// match the reply to a query not answered yet (IDs may repeat)
		found := false
		for i := 0; i < wantSeen; i++ {
			if !found && !used[i] && h.seen[i] == id && i != h.dropIdx {
				used[i], found = true, true
			}
		}
		vrtAssert("every reply carries the ID of a query on this connection that has not been answered yet", found)
	}
	if dropped {
		vrtCover("handler produced nothing", true)
	}
	if garbage {
		vrtCover("malformed frame", true)
	}
	vrtAssert("the connection is closed once the client has gone, a frame did not parse or the handler produced nothing", c.closed)
	l.Close()
	err := <-srvDone
	vrtAssert("ServeTCP returns an error when its listener fails", err != nil)
	vrtWaitQuiescent()
	vrtAssert("no goroutine of the server is left", vrtLiveThreads() == 0)
}
