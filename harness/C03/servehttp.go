//go:build verif

package server

import (
	"bytes"
	"context"
	"encoding/base64"
	"io"
	"net/http"
	"net/url"

	"github.com/IrineSistiana/mosdns/v5/pkg/pool"
	"github.com/miekg/dns"
)

type vrtRW struct {
	hdr    http.Header
	status int
	body   []byte
	writes int
}

func (w *vrtRW) Header() http.Header {
	if w.hdr == nil {
		w.hdr = http.Header{}
	}
	return w.hdr
}
func (w *vrtRW) Write(b []byte) (int, error) {
	w.writes++
	w.body = append(w.body, b...)
	return len(b), nil
}
func (w *vrtRW) WriteHeader(s int) { w.status = s }

type vrtHTTPHandler struct {
	calls   int
	id      uint16
	fromUDP bool
	path    string
	drop    bool
	rcode   int
}

func (h *vrtHTTPHandler) Handle(ctx context.Context, q *dns.Msg, meta QueryMeta, pack func(m *dns.Msg) (*[]byte, error)) *[]byte {
	h.calls++
	h.id, h.fromUDP, h.path = q.Id, meta.FromUDP, meta.UrlPath
	if h.drop {
		return nil
	}
	r := new(dns.Msg)
	r.Id, r.Response, r.Rcode = q.Id, true, h.rcode
	b, err := pack(r)
	if err != nil {
		return nil
	}
	return b
}

const vrtB64 = "ABCDEFGHIJKLMNOPQRSTUVWXYZabcdefghijklmnopqrstuvwxyz0123456789-_"

// DoH: one request (POST body or GET ?dns= parameter) carrying a header-only query with an
// arbitrary ID and flag bytes, or one that is too short to be a DNS message.  A well-formed request reaches the handler once and its reply is the response
// body, written once, with the DNS media type; a malformed one gets an HTTP error and no
// DNS reply; a request the handler produced nothing for gets an HTTP error.
func vrtHarness_C03_serveHTTP() {
	bufPool = pool.NewBytesBufPool(512)                                                  // package initialisers are not run by the executor
	base64.RawURLEncoding = base64.NewEncoding(vrtB64).WithPadding(base64.NoPadding) // same value as the real one
	hs := &vrtHTTPHandler{drop: vrtChoice(2) == 1, rcode: vrtChoice(16)}
	h := NewHttpHandler(hs, HttpHandlerOpts{})
	n := 13
	short := vrtChoice(2) == 1
	if short {
		n = vrtChoice(12)
	}
	msg := make([]byte, n)
	mode := vrtChoice(2) // POST, GET (what mosdns does with other methods or media types is not part of the property)
	id := uint16(0x1234)
	fl := [2]byte{0x01, 0x20}
	if mode != 1 { // GET: concrete message (base64 over symbolic bytes is a 64-way case split per character)
		id, fl = vrtU16(), [2]byte{vrtU8() & 0x7f, vrtU8()}
	}
	if n >= 4 {
		msg[0], msg[1], msg[2], msg[3] = byte(id>>8), byte(id), fl[0], fl[1]
	}
	req := &http.Request{Header: http.Header{}, URL: &url.URL{Path: "/dns-query"}, RemoteAddr: "192.0.2.1:555"}
	if mode == 0 {
		req.Method = http.MethodPost
		req.Body = io.NopCloser(bytes.NewReader(msg))
		req.Header["Content-Type"] = []string{"application/dns-message"}
	} else {
		req.Method = http.MethodGet
		req.Header["Accept"] = []string{"application/dns-message"}
		req.URL.RawQuery = "dns=" + base64.RawURLEncoding.EncodeToString(msg)
	}
	w := &vrtRW{}
	h.ServeHTTP(w, req)
	wellFormed := !short
	vrtAssert("a well-formed request reaches the handler exactly once, a malformed one never", hs.calls == int(vrtIteU64(wellFormed, 1, 0)))
	if !wellFormed {
		vrtCover("malformed request", true)
		vrtAssert("a malformed request gets an HTTP error and no DNS reply", vrtAnd(w.status >= 400, w.writes == 0))
		return
	}
	vrtAssert("the handler sees the query's ID, the URL path and a non-UDP transport", vrtAnd(hs.id == id, hs.path == "/dns-query", !hs.fromUDP))
	if hs.drop {
		vrtCover("handler produced nothing", true)
		vrtAssert("no reply from the plugins: HTTP error, no DNS reply", vrtAnd(w.status >= 500, w.writes == 0))
		return
	}
	vrtCover("reply served", true)
	vrtAssert("the reply is the response body, written once, status OK", vrtAnd(w.writes == 1, vrtOr(w.status == 0, w.status == 200), len(w.body) == 12))
	vrtAssert("with the DNS media type", vrtAnd(len(w.hdr["Content-Type"]) == 1, w.hdr["Content-Type"][0] == "application/dns-message"))
	if len(w.body) == 12 {
		vrtAssert("the reply carries the query's ID and QR", vrtAnd(uint16(w.body[0])<<8|uint16(w.body[1]) == id, w.body[2]&0x80 != 0, int(w.body[3]&15) == hs.rcode))
	}
}
