//go:build verif

package redirect

import (
	"context"
	"errors"

	"github.com/IrineSistiana/mosdns/v5/pkg/query_context"
	"github.com/IrineSistiana/mosdns/v5/plugin/executable/sequence"
	"github.com/miekg/dns"
)

var vrtErrNext = errors.New("vrt: rest of the chain failed")

// vrtRest is the rest of the chain behind redirect: error / no response / a
// response that echoes the (rewritten) question it was shown.
type vrtRest struct {
	mode     int
	sawName  string
	response *dns.Msg
}

func (e *vrtRest) Exec(ctx context.Context, qCtx *query_context.Context) error {
	q := qCtx.Q()
	e.sawName = q.Question[0].Name
	switch e.mode {
	case 0:
		return vrtErrNext
	case 1:
		return nil
	case 3: // answers and fails
		r := new(dns.Msg)
		r.SetReply(q)
		e.response = r
		qCtx.SetResponse(r)
		return vrtErrNext
	}
	r := new(dns.Msg)
	r.SetReply(q)
	r.Answer = []dns.RR{&dns.A{Hdr: dns.RR_Header{Name: q.Question[0].Name, Rrtype: dns.TypeA, Class: dns.ClassINET, Ttl: 60}, A: []byte{192, 0, 2, 1}}}
	e.response = r
	qCtx.SetResponse(r)
	return nil
}

// Per-plugin obligation of C03 for redirect: whatever the rest of the chain does
// (error included), the query's question is what it was on entry, and a
// response left in the context carries the original question (CNAME prepended).
func vrtHarness_C03_redirect() {
	rd, err := NewRedirect(&Args{Rules: []string{"a.x b.y", "domain:d.z e.y"}})
	vrtAssume(err == nil)
	names := []string{"a.x.", "A.X.", "s.d.z.", "n.o."}
	name := names[vrtChoice(len(names))]
	q := new(dns.Msg)
	q.Id = vrtU16()
	q.Question = []dns.Question{{Name: name, Qtype: vrtU16(), Qclass: dns.ClassINET}}
	if vrtChoice(2) == 1 {
		q.Question[0].Qclass = dns.ClassCHAOS
	}
	qtype, qclass := q.Question[0].Qtype, q.Question[0].Qclass
	qCtx := query_context.NewContext(q)
	rest := &vrtRest{mode: vrtChoice(4)}
	next := sequence.NewChainWalker([]*sequence.ChainNode{{E: rest}}, nil)
	execErr := rd.Exec(context.Background(), qCtx, next)

	vrtCover("redirected", rest.sawName != name)
	vrtCover("not redirected", rest.sawName == name)
	vrtCover("rest of the chain failed", execErr != nil)
	vrtAssert("the error of the rest of the chain is reported", (execErr != nil) == vrtOr(rest.mode == 0, rest.mode == 3))
	qq := qCtx.Q().Question
	vrtAssert("the query's question is what it was on entry (every path, error included)",
		vrtAnd(len(qq) == 1, qq[0].Name == name, qq[0].Qtype == qtype, qq[0].Qclass == qclass))
	if r := qCtx.R(); r != nil {
		vrtAssert("a response left in the context carries the original question",
			vrtAnd(len(r.Question) == 1, r.Question[0].Name == name, r.Question[0].Qtype == qtype, r.Question[0].Qclass == qclass, r.Id == q.Id, r.Response))
		if rest.sawName != name {
			c, ok := r.Answer[0].(*dns.CNAME)
			vrtAssert("a CNAME from the asked name to the redirect target is prepended", vrtAnd(ok, ok && c.Hdr.Name == name, ok && c.Target == rest.sawName))
		}
	}
}
