//go:build verif

package server_handler

import (
	"context"
	"errors"

	"github.com/IrineSistiana/mosdns/v5/pkg/query_context"
	"github.com/IrineSistiana/mosdns/v5/pkg/server"
	"github.com/miekg/dns"
)

var vrtErrPlugin = errors.New("vrt: plugin chain failed")

// vrtEntry is the plugin chain: it records what it is shown and ends in one
// of the three outcomes the handler distinguishes.
type vrtEntry struct {
	mode      int      // 0 error, 1 no response, 2 response, 3 a response was set and then a later plugin failed
	resp      *dns.Msg // response to set (mode 2); built from the query at Exec time
	build     func(q *dns.Msg) *dns.Msg
	clientOpt *dns.OPT
	// observations of the query the chain sees
	ran        int
	qOptCount  int
	qOptFresh  bool
	qOptNoOpts bool
	qSameQ     bool
	origName   string
	origType   uint16
	origClass  uint16
}

func (e *vrtEntry) Exec(ctx context.Context, qCtx *query_context.Context) error {
	e.ran++
	q := qCtx.Q()
	for _, rr := range q.Extra {
		if o, ok := rr.(*dns.OPT); ok {
			e.qOptCount++
			e.qOptFresh = o != e.clientOpt
			e.qOptNoOpts = len(o.Option) == 0
		}
	}
	e.qSameQ = vrtAnd(len(q.Question) == 1, vrtStrEq(q.Question[0].Name, e.origName), q.Question[0].Qtype == e.origType, q.Question[0].Qclass == e.origClass)
	switch e.mode {
	case 0:
		return vrtErrPlugin
	case 1:
		return nil
	}
	e.resp = e.build(q)
	qCtx.SetResponse(e.resp)
	if e.mode == 3 {
		return vrtErrPlugin // an earlier plugin attached an answer, a later one failed: the chain returned an error
	}
	return nil
}

func vrtOptWith(nOpts int) *dns.OPT {
	o := new(dns.OPT)
	o.Hdr.Name = "."
	o.Hdr.Rrtype = dns.TypeOPT
	o.Hdr.Class = vrtU16() // advertised UDP size
	o.Hdr.Ttl = vrtU32()   // extended rcode, version, DO, Z
	for i := 0; i < nOpts; i++ {
		o.Option = append(o.Option, &dns.EDNS0_LOCAL{Code: vrtU16(), Data: vrtBytes(1)})
	}
	return o
}

func vrtCountOpt(rrs []dns.RR) (n int, last *dns.OPT) {
	for _, rr := range rrs {
		if o, ok := rr.(*dns.OPT); ok {
			n++
			last = o
		}
	}
	return
}

// Handle: every well-formed query gets exactly one reply with its own ID and
// question, QR and RA set and the right rcode; malformed queries get none;
// EDNS0 is terminated on both sides (C15).
func vrtHarness_C03_handle() {
	q := new(dns.Msg)
	vrtHeader(q)
	nq := vrtChoice(3)
	nameLen := 1 + vrtChoice(vrtParam("max_name", 3))
	for i := 0; i < nq; i++ {
		q.Question = append(q.Question, dns.Question{Name: vrtString(nameLen), Qtype: vrtU16(), Qclass: vrtU16()})
	}
	q.Answer = vrtSection(1, []int{0}, "x.")
	q.Ns = vrtSection(1, []int{2}, "x.")
	var clientOpt *dns.OPT
	switch vrtChoice(4) {
	case 1: // one OPT with 0..2 options
		clientOpt = vrtOptWith(vrtChoice(3))
		q.Extra = []dns.RR{clientOpt}
	case 2: // one non-OPT additional record
		q.Extra = []dns.RR{vrtRR(0, "x.")}
	case 3: // two additional records: malformed for this server
		clientOpt = vrtOptWith(0)
		q.Extra = []dns.RR{vrtRR(0, "x."), clientOpt}
	}
	malformed := vrtOr(q.Response, nq != 1, len(q.Answer)+len(q.Ns) > 0, len(q.Extra) > 1)
	qid := q.Id
	ent := &vrtEntry{mode: vrtChoice(4), clientOpt: clientOpt}
	if nq > 0 {
		ent.origName, ent.origType, ent.origClass = q.Question[0].Name, q.Question[0].Qtype, q.Question[0].Qclass
	}
	var upstreamOpt *dns.OPT
	ent.build = func(qq *dns.Msg) *dns.Msg {
		r := new(dns.Msg)
		vrtHeader(r)
		r.Id = qq.Id
		r.Response = true
		if clientOpt == nil {
			r.Rcode &= 0xf // extended rcodes only when the client sent OPT
		}
		r.Question = []dns.Question{qq.Question[0]}
		n := vrtParam("max_rr", 1)
		r.Answer = vrtSection(n, []int{0, 1}, "a.")
		r.Ns = vrtSection(1, []int{2}, "a.")
		r.Extra = vrtSection(1, []int{0}, "a.")
		switch vrtChoice(3) { // upstream sent its own OPT with options (padding, cookie, ecs ...)
		case 1: // ... as the last additional record
			upstreamOpt = vrtOptWith(1 + vrtChoice(2))
			r.Extra = append(r.Extra, upstreamOpt)
		case 2: // ... in front of other additional records
			upstreamOpt = vrtOptWith(1)
			r.Extra = append([]dns.RR{upstreamOpt}, r.Extra...)
		}
		return r
	}
	meta := server.QueryMeta{FromUDP: vrtBool()}
	var captured []*dns.Msg
	payload := []byte{0xd0}
	pack := func(m *dns.Msg) (*[]byte, error) {
		captured = append(captured, m)
		return &payload, nil
	}
	h := NewEntryHandler(EntryHandlerOpts{Entry: ent})
	out := h.Handle(context.Background(), q, meta, pack)

	if malformed {
		vrtCover("malformed query dropped", true)
		vrtAssert("malformed query: no reply and the plugin chain is not run", vrtAnd(out == nil, len(captured) == 0, ent.ran == 0))
		return
	}
	vrtCover("well-formed query answered", true)
	vrtAssert("well-formed query: exactly one reply", vrtAnd(out != nil, len(captured) == 1, ent.ran == 1))
	m := captured[0]
	vrtAssert("reply carries the query's ID", m.Id == qid)
	vrtAssert("reply carries exactly the query's question", vrtAnd(len(m.Question) == 1,
		vrtStrEq(m.Question[0].Name, ent.origName), m.Question[0].Qtype == ent.origType, m.Question[0].Qclass == ent.origClass))
	vrtAssert("QR and RA are set", vrtAnd(m.Response, m.RecursionAvailable))
	switch ent.mode {
	case 0, 3:
		vrtCover("SERVFAIL on error", true)
		if ent.mode == 3 {
			vrtCover("error after an answer was attached", true)
		}
		vrtAssert("plugin error gives SERVFAIL", m.Rcode == dns.RcodeServerFailure)
	case 1:
		vrtCover("REFUSED on no answer", true)
		vrtAssert("no answer gives REFUSED", m.Rcode == dns.RcodeRefused)
	case 2:
		vrtCover("plugin answer returned", true)
		vrtAssert("the plugins' answer is what is sent", vrtAnd(m == ent.resp, m.Rcode == ent.resp.Rcode))
	}
	// C15: EDNS0 termination
	vrtAssert("the plugin chain sees the unchanged question", ent.qSameQ)
	vrtAssert("query shown to the chain carries exactly one OPT", ent.qOptCount == 1)
	vrtAssert("that OPT is fresh: not the client's record, none of the client's options", vrtAnd(ent.qOptFresh, ent.qOptNoOpts))
	n, o := vrtCountOpt(m.Extra)
	if clientOpt == nil {
		vrtCover("client without EDNS0", true)
		vrtAssert("no OPT in the reply when the client sent none", n == 0)
	} else {
		vrtCover("client with EDNS0", true)
		vrtAssert("exactly one OPT in the reply when the client sent one", n == 1)
		if n == 1 {
			vrtAssert("the reply OPT is the server's own record", vrtAnd(o != clientOpt, o != upstreamOpt))
			vrtAssert("client's DO bit mirrored", o.Do() == clientOpt.Do())
			vrtAssert("none of the upstream's or client's EDNS options leak into the reply", len(o.Option) == 0)
			vrtAssert("the OPT is the last additional record", m.Extra[len(m.Extra)-1] == dns.RR(o))
		}
	}
	if meta.FromUDP {
		vrtCover("UDP reply", true)
		want := 512
		if clientOpt != nil && int(clientOpt.Hdr.Class) > 512 {
			want = int(clientOpt.Hdr.Class)
		}
		vrtAssert("UDP reply is truncated to max(512, advertised size) after the OPT was attached", vrtFitsUDP(m, want))
		if !vrtSymbolic() {
			// native replay only: the symbolic run decides this clause from the recorded Truncate call; natively
			// the real Truncate runs, so sweep answer sizes around the limit to expose a wrong call
			vrtUDPSweep(clientOpt)
		}
	}
}

func vrtUDPSweep(clientOpt *dns.OPT) {
	want := 512
	if clientOpt != nil && int(clientOpt.Hdr.Class) > 512 {
		want = int(clientOpt.Hdr.Class)
	}
	if want > 4096 {
		return
	}
	for pad := want - 140; pad <= want+20; pad++ {
		q := new(dns.Msg)
		q.Id = 1
		q.Question = []dns.Question{{Name: "a.", Qtype: dns.TypeTXT, Qclass: dns.ClassINET}}
		if clientOpt != nil {
			q.Extra = []dns.RR{dns.Copy(clientOpt)}
		}
		ent := &vrtEntry{mode: 2, origName: "a."}
		ent.build = func(qq *dns.Msg) *dns.Msg {
			r := new(dns.Msg)
			r.SetReply(qq)
			var txt []string
			for n := pad; n > 0; n -= 200 {
				k := n
				if k > 200 {
					k = 200
				}
				txt = append(txt, string(make([]byte, k)))
			}
			r.Answer = []dns.RR{&dns.TXT{Hdr: dns.RR_Header{Name: "a.", Rrtype: dns.TypeTXT, Class: dns.ClassINET, Ttl: 1}, Txt: txt}}
			return r
		}
		var got *dns.Msg
		pack := func(m *dns.Msg) (*[]byte, error) { got = m; b := []byte{0}; return &b, nil }
		NewEntryHandler(EntryHandlerOpts{Entry: ent}).Handle(context.Background(), q, server.QueryMeta{FromUDP: true}, pack)
		if got != nil {
			vrtAssert("UDP reply is truncated to max(512, advertised size) after the OPT was attached", got.Len() <= want)
		}
	}
}

// getValidUDPSize = max(512, advertised) for every advertised size.
func vrtHarness_C03_udpSize() {
	o := vrtOptWith(0)
	s := getValidUDPSize(o)
	adv := int(o.Hdr.Class)
	vrtCover("small advertised size", adv < 512)
	vrtCover("large advertised size", adv > 512)
	vrtAssert("valid UDP size is max(512, advertised)", vrtAnd(s >= 512, s >= adv, vrtOr(s == 512, s == adv)))
	vrtAssert("no OPT means 512", getValidUDPSize(nil) == 512)
}
