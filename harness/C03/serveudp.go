//go:build verif

package server

import (
	"net"
	"net/netip"
	"time"
)

// ---- symbolic run: the socket is replaced by its contract (redirects in spec.json) ----

var (
	vrtUDPIn     [][]byte // datagrams the clients sent, not yet read by the server
	vrtUDPOut    [][]byte // datagrams the server wrote
	vrtUDPClosed bool
)

func vrtReadMsgUDP(c *net.UDPConn, b, oob []byte) (n, oobn, flags int, addr netip.AddrPort, err error) {
	vrtAwait(func() bool { return vrtOr(len(vrtUDPIn) > 0, vrtUDPClosed) }, func() {
		if len(vrtUDPIn) > 0 {
			n = copy(b, vrtUDPIn[0])
			vrtUDPIn = vrtUDPIn[1:]
			addr = netip.AddrPortFrom(netip.AddrFrom4([4]byte{192, 0, 2, 1}), 5353)
		} else {
			err = vrtErrClosed
		}
	})
	return
}

func vrtWriteMsgUDP(c *net.UDPConn, b, oob []byte, addr netip.AddrPort) (n, oobn int, err error) {
	vrtAtomic(func() { vrtUDPOut = append(vrtUDPOut, append([]byte(nil), b...)) })
	return len(b), 0, nil
}

func vrtInitOob(c *net.UDPConn) (getSrcAddrFromOOB, writeSrcAddrToOOB, error) { return nil, nil, nil }

// ServeUDP: k header-only queries with arbitrary IDs arrive back to back; the handler
// answers them in any order.  Every query is decoded as it was sent and gets exactly one
// reply datagram with its own ID; replies are marked as coming over UDP for the handler.
func vrtHarness_C03_serveUDP() {
	k := 1 + vrtChoice(vrtParam("max_queries", 2))
	ids := make([]uint16, k)
	for i := range ids {
		ids[i] = vrtU16()
	}
	h := &vrtHandler{release: make([]bool, k), dropIdx: -1}
	var replies [][]byte
	if vrtSymbolic() {
		vrtUDPIn, vrtUDPOut, vrtUDPClosed = nil, nil, false
		srvDone := make(chan error, 1)
		go func() { srvDone <- ServeUDP(new(net.UDPConn), h, UDPServerOpts{}) }()
		for i := 0; i < k; i++ {
			i := i
			vrtAtomic(func() {
				m := make([]byte, 12)
				m[0], m[1] = byte(ids[i]>>8), byte(ids[i])
				vrtUDPIn = append(vrtUDPIn, m)
			})
		}
		vrtWaitQuiescent()
		vrtAssert("every query reaches the handler once", len(h.seen) == k)
		vrtAssert("queries arriving over UDP are marked as such", h.fromUDP)
		order := vrtChoice(2)
		for j := 0; j < k; j++ {
			i := j
			if order == 1 {
				i = k - 1 - j
			}
			vrtAtomic(func() { h.release[i] = true })
			vrtWaitQuiescent()
		}
		vrtAtomic(func() { vrtUDPClosed = true })
		vrtAssert("ServeUDP returns an error when its socket fails", <-srvDone != nil)
		replies = vrtUDPOut
	} else {
		// native: a real loopback socket, the datagrams sent back to back, the handler answers at once
		for i := range h.release {
			h.release[i] = true
		}
		pc, err := net.ListenUDP("udp", &net.UDPAddr{IP: net.IPv4(127, 0, 0, 1)})
		if err != nil {
			panic(err)
		}
		go ServeUDP(pc, h, UDPServerOpts{})
		cl, err := net.DialUDP("udp", nil, pc.LocalAddr().(*net.UDPAddr))
		if err != nil {
			panic(err)
		}
		for i := 0; i < k; i++ {
			m := make([]byte, 12)
			m[0], m[1] = byte(ids[i]>>8), byte(ids[i])
			cl.Write(m)
		}
		cl.SetReadDeadline(time.Now().Add(300 * time.Millisecond))
		for len(replies) < k {
			b := make([]byte, 512)
			n, err := cl.Read(b)
			if err != nil {
				break // datagram loss is not a finding
			}
			replies = append(replies, b[:n])
		}
		cl.Close()
		pc.Close()
	}
	vrtCover("queries served", len(replies) > 0)
	vrtAssert("never more replies than queries", len(replies) <= k)
	if vrtSymbolic() {
		vrtAssert("exactly one reply per query", len(replies) == k)
	}
	used := make([]bool, k)
	for _, w := range replies {
		vrtAssert("a reply is one whole DNS message", len(w) == 12)
		if len(w) != 12 {
			continue
		}
		id := uint16(w[0])<<8 | uint16(w[1])
		found := false
		for i := 0; i < k; i++ {
			if !found && !used[i] && ids[i] == id {
				used[i], found = true, true
			}
		}
		vrtAssert("every reply carries the ID of a query that was sent and has not been answered yet", found)
	}
}
