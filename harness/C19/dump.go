//go:build verif

package cache

import (
	"bytes"
	"time"

	"github.com/klauspost/compress/gzip"
	"github.com/miekg/dns"
)

func vrtHdrMsg(id uint16, rcode int) *dns.Msg {
	m := new(dns.Msg)
	m.Id = id
	m.Response = true
	m.Rcode = rcode
	return m
}

type vrtEnt struct {
	key       string
	it        *item
	cacheExp  time.Time
	liveAtGet bool
}

// seconds since the epoch of an instant (reference for "to the second")
func vrtSec(t time.Time) int64 { return t.Unix() }

// Dump a cache with 0..n entries of arbitrary ages and expiries, load the dump into an empty
// cache: every entry that is live reappears with the same key, message, stored time, message
// expiry and cache expiry (to the second); a truncated dump gives an error and only adds
// entries of the intact dump.
func vrtHarness_C19_roundtrip() {
	src := NewCache(&Args{Size: 1024}, Opts{})
	now := time.Now()
	n := vrtChoice(vrtParam("max_entries", 2) + 1)
	var ents []vrtEnt
	for i := 0; i < n; i++ {
		// stored up to ~1 day ago, message expiry and cache expiry up to ~1 day ahead (whole seconds plus a fraction)
		age := time.Duration(vrtBelow(86400))*time.Second + time.Duration(vrtBelow(1000))*time.Millisecond
		ttl := time.Duration(1+vrtBelow(86400)) * time.Second
		extra := time.Duration(vrtBelow(86400)) * time.Second
		// the message may already have expired while the entry is still kept (lazy cache entries)
		stale := time.Duration(vrtBelow(2*86400)) * time.Second
		it := &item{resp: vrtHdrMsg(vrtU16(), int(vrtU8()&0xf)), storedTime: now.Add(-age), expirationTime: now.Add(ttl - stale)}
		e := vrtEnt{key: string([]byte{'k', byte('0' + i)}), it: it, cacheExp: now.Add(ttl + extra)}
		src.backend.Store(key(e.key), it, e.cacheExp)
		ents = append(ents, e)
	}
	var buf bytes.Buffer
	en, err := src.writeDump(&buf)
	vrtAssert("dump succeeds and counts the entries", vrtAnd(err == nil, en == n))
	stream := buf.Bytes()

	cut := vrtChoice(2) == 1
	if cut {
		k := vrtChoice(len(stream)) // every proper prefix of the dump
		if !vrtSymbolic() {
			// native replay: the real gzip stream has other offsets; sweep its prefixes over the repetitions
			k = vrtChoiceNative(len(stream))
		}
		stream = stream[:k]
	}
	dst := NewCache(&Args{Size: 1024}, Opts{})
	rn, rerr := dst.readDump(bytes.NewReader(stream))
	if cut {
		vrtCover("truncated dump rejected", rerr != nil)
		vrtAssert("a truncated dump reports an error", rerr != nil)
	} else {
		vrtCover("intact dump loaded", rerr == nil)
		vrtAssert("an intact dump loads without error and with every entry", vrtAnd(rerr == nil, rn == n))
	}
	vrtAssert("loading never adds more entries than the dump holds", dst.backend.Len() <= n)
	for _, e := range ents {
		got, gexp, ok := dst.backend.Get(key(e.key))
		if !cut {
			vrtAssert("every live entry reappears", ok)
		}
		if ok {
			vrtCover("entry compared", true)
			vrtAssert("same answer", vrtAnd(got.resp.Id == e.it.resp.Id, got.resp.Rcode == e.it.resp.Rcode, got.resp.Response))
			vrtAssert("same stored time (to the second): same remaining TTLs", vrtSec(got.storedTime) == vrtSec(e.it.storedTime))
			vrtAssert("same message expiry (to the second)", vrtSec(got.expirationTime) == vrtSec(e.it.expirationTime))
			vrtAssert("same cache expiry (to the second)", vrtSec(gexp) == vrtSec(e.cacheExp))
		}
	}
}

// Arbitrary bytes instead of a dump: no panic, bounded allocation, terminates.
func vrtHarness_C19_garbage() {
	n := vrtChoice(vrtParam("max_stream", 20) + 1)
	stream := vrtBytes(n)
	dst := NewCache(&Args{Size: 1024}, Opts{})
	rn, err := dst.readDump(bytes.NewReader(stream))
	vrtCover("garbage rejected", err != nil)
	vrtAssert("entries reported never exceed what the stream could hold", rn <= n)
	vrtAssert("entries added never exceed what the stream could hold", dst.backend.Len() <= n)
}

// Large entries: 128..130 entries of about 8 KB each (the size is carried by the key - the
// message model of the engine is header-only - the block logic sees only the encoded entry
// size).  A dump that writeDump produced must load again, completely.
func vrtHarness_C19_bigBlocks() {
	src := NewCache(&Args{Size: 64 * 1024}, Opts{})
	now := time.Now()
	n := 127 + vrtChoice(4)
	pad := bytes.Repeat([]byte{'x'}, vrtParam("entry_bytes", 8200))
	keys := make([]string, n)
	for i := 0; i < n; i++ {
		keys[i] = string([]byte{'k', byte('0' + i/100), byte('0' + i/10%10), byte('0' + i%10)}) + string(pad)
		it := &item{resp: vrtHdrMsg(uint16(i), 0), storedTime: now.Add(-time.Minute), expirationTime: now.Add(time.Hour)}
		src.backend.Store(key(keys[i]), it, now.Add(time.Hour))
	}
	var buf bytes.Buffer
	en, err := src.writeDump(&buf)
	vrtAssert("dump succeeds and counts the entries", vrtAnd(err == nil, en == n))
	dst := NewCache(&Args{Size: 64 * 1024}, Opts{})
	rn, rerr := dst.readDump(bytes.NewReader(buf.Bytes()))
	vrtCover("large dump loaded", true)
	vrtAssert("a dump of large entries loads without error and with every entry", vrtAnd(rerr == nil, rn == n, dst.backend.Len() == n))
	for i := 0; i < n; i++ {
		got, _, ok := dst.backend.Get(key(keys[i]))
		vrtAssert("every entry reappears with its answer", vrtAnd(ok, ok && got.resp.Id == uint16(i)))
	}
}

// Arbitrary content inside a well-formed gzip stream with the right dump header: the block
// parser (length header, size limit, protobuf decoding) sees arbitrary bytes - a corrupted or
// foreign file that passes the outer checks.  No panic, bounded allocation, terminates.
func vrtHarness_C19_garbageBlocks() {
	n := vrtChoice(vrtParam("max_payload", 12) + 1)
	payload := vrtBytes(n)
	if n >= 8 {
		// the announced block length is tiny or beyond the limit (incl. the values with the top bit set);
		// lengths in between only make the reader wait for bytes that never come (kept out: a
		// symbolic allocation of up to 1 MiB is out of the engine's reach)
		u := uint64(0)
		for i := 0; i < 8; i++ {
			u = u<<8 | uint64(payload[i])
		}
		vrtAssume(vrtOr(u <= 64, u > 1<<20))
		vrtCover("announced length with the top bit set", u >= 1<<63)
	}
	var buf bytes.Buffer
	gw, _ := gzip.NewWriterLevel(&buf, gzip.BestSpeed)
	gw.Name = dumpHeader
	_, werr := gw.Write(payload)
	cerr := gw.Close()
	vrtAssume(werr == nil && cerr == nil)
	dst := NewCache(&Args{Size: 1024}, Opts{})
	rn, err := dst.readDump(bytes.NewReader(buf.Bytes()))
	vrtCover("garbage blocks rejected", err != nil)
	vrtCover("garbage blocks accepted", err == nil)
	vrtAssert("entries reported never exceed what the payload could hold", rn <= n)
	vrtAssert("entries added never exceed what the payload could hold", dst.backend.Len() <= n)
}
