//go:build verif

package cache

// Harness-level contracts for the libraries writeDump/readDump go through.  The symbolic
// engine redirects the library calls listed in spec.json to these functions; natively the
// real libraries run.
//
// gzip: an identity transform with framing: header {0x1f, len(name), name}, then one chunk
// {0x01, 3-byte big-endian length, bytes} per Write, trailer {0x00} written by Close.  The reader
// yields io.EOF only after the trailer, io.ErrUnexpectedEOF if the stream ends earlier, and
// an error for anything that is not a well-formed frame - the contract of a gzip stream.
//
// protobuf: a field-preserving encoding of CacheDumpBlock/CachedEntry:
// per entry {klen_hi, klen_lo, key, mlen_hi, mlen_lo, msg, 3 x int64 big endian}.

import (
	"encoding/binary"
	"errors"
	"io"

	"github.com/klauspost/compress/gzip"
	"google.golang.org/protobuf/proto"
)

type vrtGzW struct {
	w     io.Writer
	wrote bool
}

type vrtGzR struct {
	r    io.Reader
	left int
	done bool
}

var (
	vrtGzWriters = map[*gzip.Writer]*vrtGzW{}
	vrtGzReaders = map[*gzip.Reader]*vrtGzR{}
	vrtErrGzip   = errors.New("gzip: invalid stream")
	vrtErrProto  = errors.New("proto: cannot parse invalid wire-format data")
)

func vrtGzipNewWriterLevel(w io.Writer, level int) (*gzip.Writer, error) {
	z := new(gzip.Writer)
	if vrtGzWriters == nil { // package initialisers are not run by the symbolic engine
		vrtGzWriters = map[*gzip.Writer]*vrtGzW{}
	}
	vrtGzWriters[z] = &vrtGzW{w: w}
	return z, nil
}

func vrtGzHeader(z *gzip.Writer, s *vrtGzW) error {
	if s.wrote {
		return nil
	}
	s.wrote = true
	h := append([]byte{0x1f, byte(len(z.Name))}, z.Name...)
	_, err := s.w.Write(h)
	return err
}

func vrtGzipWrite(z *gzip.Writer, p []byte) (int, error) {
	s := vrtGzWriters[z]
	if err := vrtGzHeader(z, s); err != nil {
		return 0, err
	}
	c := append([]byte{0x01, byte(len(p) >> 16), byte(len(p) >> 8), byte(len(p))}, p...)
	if _, err := s.w.Write(c); err != nil {
		return 0, err
	}
	return len(p), nil
}

func vrtGzipWriterClose(z *gzip.Writer) error {
	s := vrtGzWriters[z]
	if err := vrtGzHeader(z, s); err != nil {
		return err
	}
	_, err := s.w.Write([]byte{0x00})
	return err
}

func vrtReadN(r io.Reader, n int) ([]byte, error) {
	b := make([]byte, n)
	if _, err := io.ReadFull(r, b); err != nil {
		return nil, err
	}
	return b, nil
}

func vrtGzipNewReader(r io.Reader) (*gzip.Reader, error) {
	h, err := vrtReadN(r, 2)
	if err != nil {
		return nil, err
	}
	if h[0] != 0x1f {
		return nil, vrtErrGzip
	}
	name, err := vrtReadN(r, int(h[1]))
	if err != nil {
		return nil, io.ErrUnexpectedEOF
	}
	z := new(gzip.Reader)
	z.Name = string(name)
	if vrtGzReaders == nil {
		vrtGzReaders = map[*gzip.Reader]*vrtGzR{}
	}
	vrtGzReaders[z] = &vrtGzR{r: r}
	return z, nil
}

func vrtGzipRead(z *gzip.Reader, p []byte) (int, error) {
	s := vrtGzReaders[z]
	if s.done {
		return 0, io.EOF
	}
	if len(p) == 0 {
		return 0, nil
	}
	for s.left == 0 {
		t, err := vrtReadN(s.r, 1)
		if err != nil {
			return 0, io.ErrUnexpectedEOF // stream cut before the trailer
		}
		switch t[0] {
		case 0x00:
			s.done = true
			return 0, io.EOF
		case 0x01:
			l, err := vrtReadN(s.r, 3)
			if err != nil {
				return 0, io.ErrUnexpectedEOF
			}
			s.left = int(l[0])<<16 | int(l[1])<<8 | int(l[2])
		default:
			return 0, vrtErrGzip
		}
	}
	n := len(p)
	if s.left < n {
		n = s.left
	}
	k, err := io.ReadFull(s.r, p[:n])
	s.left -= k
	if err != nil {
		return k, io.ErrUnexpectedEOF
	}
	return k, nil
}

func vrtGzipReaderClose(z *gzip.Reader) error { return nil }

func vrtProtoMarshal(m proto.Message) ([]byte, error) {
	blk := m.(*CacheDumpBlock)
	var b []byte
	for _, e := range blk.Entries {
		b = append(b, byte(len(e.Key)>>8), byte(len(e.Key)))
		b = append(b, e.Key...)
		b = append(b, byte(len(e.Msg)>>8), byte(len(e.Msg)))
		b = append(b, e.Msg...)
		b = binary.BigEndian.AppendUint64(b, uint64(e.CacheExpirationTime))
		b = binary.BigEndian.AppendUint64(b, uint64(e.MsgExpirationTime))
		b = binary.BigEndian.AppendUint64(b, uint64(e.MsgStoredTime))
	}
	return b, nil
}

func vrtProtoUnmarshal(b []byte, m proto.Message) error {
	blk := m.(*CacheDumpBlock)
	for len(b) > 0 {
		e := new(CachedEntry)
		for f := 0; f < 2; f++ {
			if len(b) < 2 {
				return vrtErrProto
			}
			n := int(b[0])<<8 | int(b[1])
			if len(b) < 2+n {
				return vrtErrProto
			}
			if f == 0 {
				e.Key = append([]byte(nil), b[2:2+n]...)
			} else {
				e.Msg = append([]byte(nil), b[2:2+n]...)
			}
			b = b[2+n:]
		}
		if len(b) < 24 {
			return vrtErrProto
		}
		e.CacheExpirationTime = int64(binary.BigEndian.Uint64(b[0:]))
		e.MsgExpirationTime = int64(binary.BigEndian.Uint64(b[8:]))
		e.MsgStoredTime = int64(binary.BigEndian.Uint64(b[16:]))
		b = b[24:]
		blk.Entries = append(blk.Entries, e)
	}
	return nil
}

func vrtBlockReset(x *CacheDumpBlock) { x.Entries = nil }

// proto.Size: the length of what Marshal produces (for a block or a single entry)
func vrtProtoSize(m proto.Message) int {
	switch x := m.(type) {
	case *CachedEntry:
		return 2 + len(x.Key) + 2 + len(x.Msg) + 24
	case *CacheDumpBlock:
		n := 0
		for _, e := range x.Entries {
			n += 2 + len(e.Key) + 2 + len(e.Msg) + 24
		}
		return n
	}
	return 0
}
