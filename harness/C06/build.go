//go:build verif

package sequence

import (
	"context"

	"github.com/IrineSistiana/mosdns/v5/pkg/query_context"
	"github.com/miekg/dns"
	"go.uber.org/zap"
)

// From rule text to behaviour: a sequence is built by NewSequence from rule strings that
// use anonymous (quick-setup) matchers and executables - the same matcher expression may
// appear in several rules, negated or not - and then executed.  A rule's action runs iff all
// of its matchers are true after applying '!'; rules run in order.
type vrtQM struct{ val bool }

func (m vrtQM) Match(ctx context.Context, qCtx *query_context.Context) (bool, error) { return m.val, nil }

type vrtQE struct {
	id    int
	trace *[]int
}

func (e vrtQE) Exec(ctx context.Context, qCtx *query_context.Context) error {
	*e.trace = append(*e.trace, e.id)
	return nil
}

func vrtHarness_C06_build() {
	var trace []int
	// anonymous matcher types: "vt x" is true, "vf x" is false, whatever the argument
	matchQuickSetupReg.Lock()
	if matchQuickSetupReg.m == nil {
		matchQuickSetupReg.m = map[string]MatchQuickSetupFunc{}
	}
	matchQuickSetupReg.m["vt"] = func(bq BQ, args string) (Matcher, error) { return vrtQM{true}, nil }
	matchQuickSetupReg.m["vf"] = func(bq BQ, args string) (Matcher, error) { return vrtQM{false}, nil }
	matchQuickSetupReg.Unlock()
	execQuickSetupReg.Lock()
	if execQuickSetupReg.m == nil {
		execQuickSetupReg.m = map[string]ExecQuickSetupFunc{}
	}
	execQuickSetupReg.m["ve"] = func(bq BQ, args string) (any, error) {
		return vrtQE{id: int(args[0] - '0'), trace: &trace}, nil
	}
	execQuickSetupReg.Unlock()

	exprs := []string{"vt a", "vf a", "!vt a", "!vf a", "vt b", "! vt b"}
	truth := []bool{true, false, false, true, true, false}
	nr := 2 + vrtChoice(vrtParam("max_rules", 2)-1)
	var rules []RuleArgs
	var want []int
	for r := 0; r < nr; r++ {
		nm := vrtChoice(3) // 0..2 matchers
		all := true
		var ms []string
		for i := 0; i < nm; i++ {
			k := vrtChoice(len(exprs))
			ms = append(ms, exprs[k])
			all = all && truth[k]
		}
		rules = append(rules, RuleArgs{Matches: ms, Exec: "ve " + string(rune('0'+r))})
		if all {
			want = append(want, r)
		}
	}
	s, err := NewSequence(NewBQ(nil, zap.NewNop()), rules)
	vrtAssert("well-formed rules build a sequence", vrtAnd(err == nil, s != nil))
	if err != nil {
		return
	}
	q := new(dns.Msg)
	q.Question = []dns.Question{{Name: "a.", Qtype: dns.TypeA, Qclass: dns.ClassINET}}
	xerr := s.Exec(context.Background(), query_context.NewContext(q))
	vrtAssert("no error", xerr == nil)
	same := len(trace) == len(want)
	for i := 0; same && i < len(want); i++ {
		same = trace[i] == want[i]
	}
	vrtCover("some rule skipped", len(want) < nr)
	vrtCover("some rule ran", len(want) > 0)
	vrtAssert("a rule's action runs iff all its matchers are true after applying '!', in rule order", same)
}
