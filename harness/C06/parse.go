//go:build verif

package sequence

func vrtIsSp(c byte) bool { return vrtOr(c == ' ', c == '\t', c == '\n', c == '\r') }

// reference: trim ASCII white space
func vrtTrim(s string) string {
	i, j := 0, len(s)
	for i < j && vrtIsSp(s[i]) {
		i++
	}
	for j > i && vrtIsSp(s[j-1]) {
		j--
	}
	return s[i:j]
}

// reference split of a matcher rule: ["!"] ("$" tag | type) [" " args]
func vrtRefMatch(s string) (reverse bool, tag, typ, args string) {
	s = vrtTrim(s)
	if len(s) > 0 && s[0] == '!' {
		reverse = true
		s = vrtTrim(s[1:])
	}
	k := 0
	for k < len(s) && s[k] != ' ' {
		k++
	}
	p := s[:k]
	if k < len(s) {
		args = vrtTrim(s[k+1:])
	}
	if len(p) > 0 && p[0] == '$' {
		tag = vrtTrim(p[1:])
	} else {
		typ = p
	}
	return
}

func vrtRuleText(n int) string {
	s := vrtString(n)
	for i := 0; i < n; i++ {
		c := s[i]
		vrtAssume(vrtOr(c == '!', c == '$', c == ' ', c == '\t', c == 'a', c == 'b'))
	}
	return s
}

func vrtHarness_C06_parse() {
	n := vrtChoice(vrtParam("max_len", 5) + 1)
	s := vrtRuleText(n)
	mc := parseMatch(s)
	rev, tag, typ, args := vrtRefMatch(s)
	vrtCover("negated rule", mc.Reverse)
	vrtCover("tag rule", mc.Tag != "")
	vrtAssert("'!' negation parsed", mc.Reverse == rev)
	vrtAssert("'$tag' parsed", vrtStrEq(mc.Tag, tag))
	vrtAssert("type parsed", vrtStrEq(mc.Type, typ))
	vrtAssert("args parsed", vrtStrEq(mc.Args, args))
	etag, etyp, eargs := parseExec(s)
	_, rtag, rtyp, rargs := vrtRefMatch("a" + s)
	_ = rtag
	_ = rtyp
	_ = rargs
	// exec rules have no negation: the reference is the matcher split without the '!' step
	t := vrtTrim(s)
	k := 0
	for k < len(t) && t[k] != ' ' {
		k++
	}
	p, a := t[:k], ""
	if k < len(t) {
		a = vrtTrim(t[k+1:])
	}
	wantTag, wantTyp := "", p
	if len(p) > 0 && p[0] == '$' {
		wantTag, wantTyp = vrtTrim(p[1:]), ""
	}
	vrtAssert("exec rule: tag/type/args parsed", vrtAnd(vrtStrEq(etag, wantTag), vrtStrEq(etyp, wantTyp), vrtStrEq(eargs, a)))
}
