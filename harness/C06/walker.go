//go:build verif

package sequence

import (
	"context"
	"errors"

	"github.com/IrineSistiana/mosdns/v5/pkg/query_context"
	"github.com/miekg/dns"
)

var vrtErrRule = errors.New("vrt: rule failed")

// ---- the program under test: S sequences of R rules; every matcher outcome and every
// action kind is decided (once) when it is first needed, so only visited rules fork ----

const (
	kPlainOK = iota
	kPlainErr
	kAccept
	kReject
	kReturn
	kJump
	kGoto
	kWrap0
	kWrap1
	kWrap2
	kWrapErr
	kWrapLater // runs the continuation once now and once more after the whole sequence has returned (a background refresh)
	kKinds
)

type vrtProg struct {
	chains  [][]*ChainNode
	nodes   [][]*vrtRule
	trace   []int // real run
	marker  int   // id of the action that last claimed the response
	mOut    map[int]int
	sKind   map[int]int
	aKind   map[int]int
	aTarget map[int]int
	maxM    int
	later   *ChainWalker // continuation kept by the first kWrapLater action
}

type vrtRule struct {
	id, seq, pos int
}

type vrtMatcher struct {
	p  *vrtProg
	id int
}

// vrtSlot is one of the M matcher slots of a rule.  Whether the slot holds a matcher at
// all and whether it is negated is decided when the walker first evaluates it.
type vrtSlot struct {
	p  *vrtProg
	id int
}

func (p *vrtProg) slotKind(id int) int { // 0 absent, 1 plain, 2 negated
	if v, ok := p.sKind[id]; ok {
		return v
	}
	v := vrtChoice(3)
	p.sKind[id] = v
	return v
}

func (s *vrtSlot) Match(ctx context.Context, qCtx *query_context.Context) (bool, error) {
	inner := &vrtMatcher{p: s.p, id: s.id}
	switch s.p.slotKind(s.id) {
	case 0:
		return true, nil // no matcher in this slot
	case 1:
		return inner.Match(ctx, qCtx)
	}
	return reverseMatcher(inner).Match(ctx, qCtx) // the real negation wrapper
}

func (p *vrtProg) outcome(id int) int { // 0 true, 1 false, 2 error
	if v, ok := p.mOut[id]; ok {
		return v
	}
	v := vrtChoice(3)
	p.mOut[id] = v
	return v
}

func (p *vrtProg) kind(r *vrtRule) (int, int) {
	if v, ok := p.aKind[r.id]; ok {
		return v, p.aTarget[r.id]
	}
	k := vrtChoice(kKinds)
	t := 0
	if k == kJump || k == kGoto {
		if r.seq == 0 {
			k = kPlainOK // sequence 0 is loaded first: nothing to refer to
		} else {
			t = vrtChoice(r.seq) // only sequences loaded earlier can be referenced
		}
	}
	p.aKind[r.id], p.aTarget[r.id] = k, t
	return k, t
}

func (m *vrtMatcher) Match(ctx context.Context, qCtx *query_context.Context) (bool, error) {
	m.p.trace = append(m.p.trace, m.id)
	switch m.p.outcome(m.id) {
	case 0:
		return true, nil
	case 1:
		return false, nil
	}
	return false, vrtErrRule
}

// vrtAction delegates to the real built-in action of the kind decided for this rule.
type vrtAction struct {
	p *vrtProg
	r *vrtRule
}

func (a *vrtAction) Exec(ctx context.Context, qCtx *query_context.Context, next ChainWalker) error {
	p := a.p
	p.trace = append(p.trace, 1000+a.r.id)
	k, t := p.kind(a.r)
	switch k {
	case kPlainOK:
		// a plain (non-recursive) action: the walker itself continues after it
		return next.ExecNext(ctx, qCtx)
	case kPlainErr, kWrapErr:
		return vrtErrRule
	case kAccept:
		return ActionAccept{}.Exec(ctx, qCtx, next)
	case kReject:
		p.marker = a.r.id
		return ActionReject{Rcode: dns.RcodeRefused}.Exec(ctx, qCtx, next)
	case kReturn:
		return ActionReturn{}.Exec(ctx, qCtx, next)
	case kJump:
		return (&ActionJump{To: p.chains[t]}).Exec(ctx, qCtx, next)
	case kGoto:
		return ActionGoto{To: p.chains[t]}.Exec(ctx, qCtx, next)
	}
	if k == kWrapLater {
		if err := next.ExecNext(ctx, qCtx); err != nil {
			return err
		}
		p.trace = append(p.trace, 2000+a.r.id)
		if p.later == nil {
			kept := next
			p.later = &kept
		}
		return nil
	}
	// wrapper: runs the continuation 0, 1 or 2 times and then post-processes
	for i := 0; i < k-kWrap0; i++ {
		if err := next.ExecNext(ctx, qCtx); err != nil {
			return err
		}
	}
	p.trace = append(p.trace, 2000+a.r.id)
	return nil
}

func vrtBuild(S, R, M int) *vrtProg {
	p := &vrtProg{mOut: map[int]int{}, sKind: map[int]int{}, aKind: map[int]int{}, aTarget: map[int]int{}, maxM: M, marker: -1}
	id := 0
	for s := 0; s < S; s++ {
		var chain []*ChainNode
		var rules []*vrtRule
		nr := R
		if s < S-1 && vrtParam("lower_rules", 0) > 0 {
			nr = vrtParam("lower_rules", 0) // sequences below the top one may be shorter (quick tier)
		}
		for r := 0; r < nr; r++ {
			rule := &vrtRule{id: id, seq: s, pos: r}
			n := &ChainNode{}
			for m := 0; m < M; m++ {
				n.Matches = append(n.Matches, &vrtSlot{p: p, id: id*10 + m})
			}
			n.RE = &vrtAction{p: p, r: rule}
			chain = append(chain, n)
			rules = append(rules, rule)
			id++
		}
		p.chains = append(p.chains, chain)
		p.nodes = append(p.nodes, rules)
	}
	return p
}

// ---- reference interpreter, written from the property text ----

type vrtRef struct {
	p      *vrtProg
	trace  []int
	marker int
	later  func() int
}

// returns 0 = finished, 1 = error
func (x *vrtRef) run(seq, pos int, jb func() int) int {
	rules := x.p.nodes[seq]
	for i := pos; i < len(rules); i++ {
		r := rules[i]
		matched := true
		for m := 0; m < x.p.maxM; m++ {
			sk := x.p.slotKind(r.id*10 + m)
			if sk == 0 {
				continue // empty slot
			}
			x.trace = append(x.trace, r.id*10+m)
			o := x.p.outcome(r.id*10 + m)
			if o == 2 {
				return 1 // an error from any matcher aborts everything
			}
			if (o == 0) == (sk == 2) { // false after applying '!'
				matched = false
				break
			}
		}
		if !matched {
			continue
		}
		x.trace = append(x.trace, 1000+r.id)
		k, t := x.p.kind(r)
		ii := i
		rest := func() int { return x.run(seq, ii+1, jb) }
		switch k {
		case kPlainOK:
			continue
		case kPlainErr, kWrapErr:
			return 1
		case kAccept:
			return 0
		case kReject:
			x.marker = r.id
			return 0
		case kReturn:
			if jb != nil {
				return jb()
			}
			return 0
		case kJump:
			return x.run(t, 0, rest)
		case kGoto:
			return x.run(t, 0, nil)
		case kWrapLater:
			if rest() != 0 {
				return 1
			}
			x.trace = append(x.trace, 2000+r.id)
			if x.later == nil {
				x.later = rest
			}
			return 0
		default:
			for n := 0; n < k-kWrap0; n++ {
				if rest() != 0 {
					return 1
				}
			}
			x.trace = append(x.trace, 2000+r.id)
			return 0
		}
	}
	if jb != nil {
		return jb()
	}
	return 0
}

func vrtHarness_C06_walker() {
	S, R, M := vrtParam("seqs", 2), vrtParam("rules", 2), vrtParam("matchers", 1)
	p := vrtBuild(S, R, M)
	q := new(dns.Msg)
	q.Question = []dns.Question{{Name: "a.", Qtype: dns.TypeA, Qclass: dns.ClassINET}}
	qCtx := query_context.NewContext(q)
	top := S - 1
	seq := &Sequence{chain: p.chains[top]}
	err := seq.Exec(context.Background(), qCtx)

	// a continuation kept by a wrapping action is run once more after everything has returned
	var lerr error
	if err == nil && p.later != nil {
		p.trace = append(p.trace, 3000)
		lerr = p.later.ExecNext(context.Background(), qCtx)
	}

	ref := &vrtRef{p: p, marker: -1}
	want := ref.run(top, 0, nil)
	wantLater := 0
	if want == 0 && ref.later != nil {
		ref.trace = append(ref.trace, 3000)
		wantLater = ref.later()
		vrtCover("a kept continuation was run again after the sequence had returned", true)
	}
	vrtAssert("a continuation that is run again later reports errors as the rules say", (lerr != nil) == (wantLater == 1))

	vrtCover("finished", err == nil)
	vrtCover("aborted with an error", err != nil)
	vrtCover("a response was set", qCtx.R() != nil)
	vrtAssert("an error from a matcher or action aborts everything and is reported", (err != nil) == (want == 1))
	same := len(p.trace) == len(ref.trace)
	if same {
		for i := range p.trace {
			if p.trace[i] != ref.trace[i] {
				same = false
			}
		}
	}
	vrtAssert("matchers and actions run exactly in the order the rules say", same)
	vrtAssert("the response is the one set by the rule the rules say", vrtAnd(p.marker == ref.marker, (qCtx.R() != nil) == (ref.marker >= 0)))
}
