//go:build verif

package dnsutils

import "github.com/miekg/dns"

// TTL rewriting never alters the OPT pseudo-record (its "TTL" holds flags).
func vrtHarness_C15_ttlHelpers() {
	m := new(dns.Msg)
	m.Answer = vrtSection(1, []int{0}, "a.")
	opt := vrtRR(3, ".").(*dns.OPT)
	other := vrtRR(0, "a.")
	if vrtChoice(2) == 0 {
		m.Extra = []dns.RR{opt, other}
	} else {
		m.Extra = []dns.RR{other, opt}
	}
	flags := opt.Hdr.Ttl
	arg := vrtU32()
	switch vrtChoice(5) {
	case 0:
		SetTTL(m, arg)
		vrtAssert("SetTTL sets every non-OPT record", other.Header().Ttl == arg)
	case 1:
		before := other.Header().Ttl
		SubtractTTL(m, arg)
		vrtAssert("SubtractTTL lowers by delta, floor 1", other.Header().Ttl == uint32(vrtIteU64(before > arg, uint64(before-arg), 1)))
	case 2:
		ApplyMaximumTTL(m, arg)
		vrtAssert("ApplyMaximumTTL caps", other.Header().Ttl <= arg)
	case 3:
		ApplyMinimalTTL(m, arg)
		vrtAssert("ApplyMinimalTTL raises", other.Header().Ttl >= arg)
	case 4:
		min := GetMinimalTTL(m)
		vrtAssert("GetMinimalTTL ignores OPT", min <= other.Header().Ttl)
		for _, rr := range m.Answer {
			vrtAssert("GetMinimalTTL is a lower bound of real records", min <= rr.Header().Ttl)
		}
	}
	vrtCover("helper ran", true)
	vrtAssert("OPT flags/extended-rcode word untouched by TTL helpers", opt.Hdr.Ttl == flags)
	n := 0
	for _, rr := range m.Extra {
		if rr.Header().Rrtype == dns.TypeOPT {
			n++
		}
	}
	vrtAssert("OPT neither duplicated nor dropped", n == 1)
}
