//go:build verif

package ecs_handler

import (
	"context"
	"net/netip"

	"github.com/IrineSistiana/mosdns/v5/pkg/query_context"
	"github.com/IrineSistiana/mosdns/v5/plugin/executable/sequence"
	"github.com/miekg/dns"
)

type vrtEcsUp struct {
	subnets []*dns.EDNS0_SUBNET // client-subnet options the upstream side was given
	others  int
	sawOPTs int
	reply   *dns.Msg
}

func (u *vrtEcsUp) Exec(ctx context.Context, qCtx *query_context.Context) error {
	for _, rr := range qCtx.Q().Extra {
		if o, ok := rr.(*dns.OPT); ok {
			u.sawOPTs++
			for _, opt := range o.Option {
				if s, ok := opt.(*dns.EDNS0_SUBNET); ok {
					u.subnets = append(u.subnets, s)
				} else {
					u.others++
				}
			}
		}
	}
	qCtx.SetResponse(u.reply)
	return nil
}

// ecs_handler: the client's client-subnet option goes upstream only with `forward`, and only
// then does the upstream's come back; `send`/`preset` add an option made from the client
// address or the preset, never the client's own; at most one client-subnet option is sent;
// no other client option crosses; a client without OPT gets none back.
func vrtHarness_C15_ecs() {
	args := Args{Forward: vrtBool(), Send: vrtBool()}
	if vrtChoice(2) == 1 {
		args.Preset = "198.51.100.7"
	}
	e, err := NewHandler(args)
	vrtAssume(err == nil)
	q := new(dns.Msg)
	q.Id = vrtU16()
	qclass := uint16(dns.ClassINET)
	if vrtChoice(4) == 0 {
		qclass = dns.ClassCHAOS
	}
	q.Question = []dns.Question{{Name: "a.", Qtype: dns.TypeA, Qclass: qclass}}
	clientECS := &dns.EDNS0_SUBNET{Code: dns.EDNS0SUBNET, Family: 1, SourceNetmask: 24, Address: []byte{203, 0, 113, 0}}
	clientHasOpt, clientHasECS := vrtChoice(2) == 1, false
	if clientHasOpt {
		o := &dns.OPT{Hdr: dns.RR_Header{Name: ".", Rrtype: dns.TypeOPT, Class: 1232}}
		o.Option = append(o.Option, &dns.EDNS0_LOCAL{Code: 10, Data: []byte{1}})
		if vrtChoice(2) == 1 {
			clientHasECS = true
			o.Option = append(o.Option, clientECS)
		}
		q.Extra = append(q.Extra, o)
	}
	qCtx := query_context.NewContext(q)
	if vrtChoice(2) == 1 {
		qCtx.ServerMeta.ClientAddr = netip.AddrFrom4([4]byte{192, 0, 2, 99})
	}
	r := new(dns.Msg)
	r.SetReply(q)
	upECS := &dns.EDNS0_SUBNET{Code: dns.EDNS0SUBNET, Family: 1, SourceNetmask: 24, SourceScope: 20, Address: []byte{203, 0, 113, 0}}
	upHasECS := vrtChoice(2) == 1
	uo := &dns.OPT{Hdr: dns.RR_Header{Name: ".", Rrtype: dns.TypeOPT, Class: 4096}}
	uo.Option = append(uo.Option, &dns.EDNS0_LOCAL{Code: 12, Data: []byte{0, 0}})
	if upHasECS {
		uo.Option = append(uo.Option, upECS)
	}
	r.Extra = append(r.Extra, uo)
	up := &vrtEcsUp{reply: r}
	w := sequence.NewChainWalker([]*sequence.ChainNode{{E: up}}, nil)
	xerr := e.Exec(context.Background(), qCtx, w)
	vrtAssert("no error", xerr == nil)
	vrtAssert("the upstream query carries exactly one OPT", up.sawOPTs == 1)
	vrtAssert("no other client option goes upstream", up.others == 0)
	vrtAssert("at most one client-subnet option goes upstream", len(up.subnets) <= 1)
	forwarded := vrtAnd(args.Forward, clientHasECS, qclass == dns.ClassINET)
	for _, s := range up.subnets {
		if s == clientECS {
			vrtCover("client's subnet option forwarded", true)
			vrtAssert("the client's own client-subnet option goes upstream only with forward", forwarded)
		} else {
			vrtCover("subnet option made by the plugin", true)
			vrtAssert("an option made by the plugin needs send or preset, class IN, and is well-formed for a query",
				vrtAnd(vrtOr(args.Send, args.Preset != ""), qclass == dns.ClassINET, s.SourceScope == 0, s.Code == dns.EDNS0SUBNET))
		}
	}
	if forwarded {
		vrtAssert("with forward the client's option is the one that is sent", vrtAnd(len(up.subnets) == 1, up.subnets[0] == clientECS))
	}
	ro := qCtx.RespOpt()
	vrtAssert("the reply has an OPT iff the client's query had one", (ro != nil) == clientHasOpt)
	if ro != nil {
		n := 0
		for _, o := range ro.Option {
			if o.Option() == dns.EDNS0SUBNET {
				n++
			} else {
				vrtAssert("no other upstream option reaches the client", false)
			}
		}
		vrtCover("upstream's subnet option returned", n == 1)
		vrtAssert("the upstream's client-subnet option reaches the client iff the client's was forwarded (and the upstream sent one)", n == int(vrtIteU64(vrtAnd(forwarded, upHasECS), 1, 0)))
	}
}
