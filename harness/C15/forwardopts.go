//go:build verif

package forwardedns0opt

import (
	"context"

	"github.com/IrineSistiana/mosdns/v5/pkg/query_context"
	"github.com/IrineSistiana/mosdns/v5/plugin/executable/sequence"
	"github.com/miekg/dns"
)

type vrtUp struct {
	sawCodes []uint16 // option codes of the OPT the upstream side was given
	sawOPTs  int
	reply    *dns.Msg
}

func (u *vrtUp) Exec(ctx context.Context, qCtx *query_context.Context) error {
	for _, rr := range qCtx.Q().Extra {
		if o, ok := rr.(*dns.OPT); ok {
			u.sawOPTs++
			for _, opt := range o.Option {
				u.sawCodes = append(u.sawCodes, opt.Option())
			}
		}
	}
	qCtx.SetResponse(u.reply)
	return nil
}

func vrtOpts(codes []uint16) []dns.EDNS0 {
	var out []dns.EDNS0
	for _, c := range codes {
		out = append(out, &dns.EDNS0_LOCAL{Code: c, Data: []byte{byte(c)}})
	}
	return out
}

// forward_edns0opt with one configured option code: the upstream query carries exactly one
// OPT holding exactly the client's options of that code (in order), the client's reply OPT
// holds exactly the upstream's options of that code; nothing else crosses in either direction,
// and nothing at all when the client sent no OPT.
func vrtHarness_C15_forwardOpts() {
	codes := []uint16{8, 10, 12} // client subnet, cookie, padding
	fwd := codes[vrtChoice(3)]
	f := &forwarder{forwardTypCodes: map[uint32]struct{}{uint32(fwd): {}}}
	pick := func() []uint16 { // an arbitrary subsequence, possibly with a repeated code
		var out []uint16
		for _, c := range codes {
			if vrtChoice(2) == 1 {
				out = append(out, c)
			}
		}
		if vrtChoice(2) == 1 {
			out = append(out, fwd)
		}
		return out
	}
	q := new(dns.Msg)
	q.Id = vrtU16()
	q.Question = []dns.Question{{Name: "a.", Qtype: dns.TypeA, Qclass: dns.ClassINET}}
	clientHasOpt := vrtChoice(2) == 1
	var cl []uint16
	if clientHasOpt {
		cl = pick()
		o := &dns.OPT{Hdr: dns.RR_Header{Name: ".", Rrtype: dns.TypeOPT, Class: 1232}, Option: vrtOpts(cl)}
		q.Extra = append(q.Extra, o)
	}
	qCtx := query_context.NewContext(q)
	r := new(dns.Msg)
	r.SetReply(q)
	upHasOpt := vrtChoice(2) == 1
	var us []uint16
	if upHasOpt {
		us = pick()
		r.Extra = append(r.Extra, &dns.OPT{Hdr: dns.RR_Header{Name: ".", Rrtype: dns.TypeOPT, Class: 4096}, Option: vrtOpts(us)})
	}
	up := &vrtUp{reply: r}
	w := sequence.NewChainWalker([]*sequence.ChainNode{{E: up}}, nil)
	err := f.Exec(context.Background(), qCtx, w)
	vrtAssert("no error", err == nil)
	vrtCover("options forwarded upstream", len(up.sawCodes) > 0)
	vrtAssert("the upstream query carries exactly one OPT", up.sawOPTs == 1)
	var wantUp []uint16
	for _, c := range cl {
		if c == fwd {
			wantUp = append(wantUp, c)
		}
	}
	same := len(up.sawCodes) == len(wantUp)
	for i := 0; same && i < len(wantUp); i++ {
		same = up.sawCodes[i] == wantUp[i]
	}
	vrtAssert("the upstream query carries the client's options of the forwarded code and no other client option", same)
	ro := qCtx.RespOpt()
	vrtAssert("the reply has an OPT iff the client's query had one", (ro != nil) == clientHasOpt)
	for _, rr := range qCtx.R().Extra {
		vrtAssert("the upstream's OPT does not stay in the reply", rr.Header().Rrtype != dns.TypeOPT)
	}
	if ro != nil {
		var got, want []uint16
		for _, o := range ro.Option {
			got = append(got, o.Option())
		}
		for _, c := range us {
			if c == fwd {
				want = append(want, c)
			}
		}
		same := len(got) == len(want)
		for i := 0; same && i < len(want); i++ {
			same = got[i] == want[i]
		}
		vrtCover("options forwarded to the client", len(want) > 0)
		vrtAssert("the client's reply OPT carries the upstream's options of the forwarded code and no other upstream option", same)
	}
	// a second, unrelated query through the same plugin: nothing of the first exchange is left
	// in its upstream query or in its reply
	q2 := new(dns.Msg)
	q2.Id = vrtU16()
	q2.Question = []dns.Question{{Name: "b.", Qtype: dns.TypeA, Qclass: dns.ClassINET}}
	q2.Extra = append(q2.Extra, &dns.OPT{Hdr: dns.RR_Header{Name: ".", Rrtype: dns.TypeOPT, Class: 1232}})
	qCtx2 := query_context.NewContext(q2)
	r2 := new(dns.Msg)
	r2.SetReply(q2)
	r2.Extra = append(r2.Extra, &dns.OPT{Hdr: dns.RR_Header{Name: ".", Rrtype: dns.TypeOPT, Class: 4096}})
	up2 := &vrtUp{reply: r2}
	err = f.Exec(context.Background(), qCtx2, sequence.NewChainWalker([]*sequence.ChainNode{{E: up2}}, nil))
	vrtCover("second query", true)
	vrtAssert("a later query without options carries exactly one fresh, empty OPT upstream", vrtAnd(err == nil, up2.sawOPTs == 1, len(up2.sawCodes) == 0))
	vrtAssert("and its reply OPT carries no option", vrtAnd(qCtx2.RespOpt() != nil, qCtx2.RespOpt() != nil && len(qCtx2.RespOpt().Option) == 0))
}
