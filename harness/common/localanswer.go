//go:build verif

package PKG

import "github.com/miekg/dns"

type vrtQSnap struct {
	id     uint16
	name   string
	qtype  uint16
	qclass uint16
	rd, cd bool
}

// vrtLocalQuery: a well-formed query with symbolic ID, flags, type (A, AAAA or any other),
// class (IN or any other) and one of the given names.
func vrtLocalQuery(names []string) (*dns.Msg, vrtQSnap) {
	q := new(dns.Msg)
	q.Id = vrtU16()
	q.RecursionDesired = vrtBool()
	q.CheckingDisabled = vrtBool()
	qt := []uint16{dns.TypeA, dns.TypeAAAA, 0}[vrtChoice(3)]
	if qt == 0 {
		qt = vrtU16()
	}
	qc := uint16(dns.ClassINET)
	if vrtChoice(2) == 1 {
		qc = vrtU16()
	}
	q.Question = []dns.Question{{Name: names[vrtChoice(len(names))], Qtype: qt, Qclass: qc}}
	return q, vrtQSnap{q.Id, q.Question[0].Name, qt, qc, q.RecursionDesired, q.CheckingDisabled}
}

// vrtCheckLocalAnswer: a locally generated answer carries the query's ID and question, is a
// response, and the query itself is what it was.
func vrtCheckLocalAnswer(q *dns.Msg, s vrtQSnap, r *dns.Msg) {
	vrtAssert("the query is left as it was", vrtAnd(q.Id == s.id, len(q.Question) == 1, q.Question[0].Name == s.name,
		q.Question[0].Qtype == s.qtype, q.Question[0].Qclass == s.qclass, !q.Response))
	if r == nil {
		return
	}
	vrtCover("local answer generated", true)
	vrtAssert("a locally generated answer carries the query's ID", r.Id == s.id)
	vrtAssert("and the query's question unchanged", vrtAnd(len(r.Question) == 1, r.Question[0].Name == s.name,
		r.Question[0].Qtype == s.qtype, r.Question[0].Qclass == s.qclass))
	vrtAssert("and is a response to a standard query", vrtAnd(r.Response, r.Opcode == dns.OpcodeQuery))
	for _, rr := range r.Answer {
		vrtAssert("answer records are about the asked name and type", vrtAnd(rr.Header().Name == s.name, rr.Header().Rrtype == s.qtype))
	}
}
