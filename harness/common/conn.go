//go:build verif

package PKG

import (
	"errors"
	"io"
	"os"
	"time"
)

// vrtConn is the harness NetConn: one side of a connection to a scripted server.
// Bytes the server queues become readable at once; Read blocks (one atomic
// guarded step) until there are bytes, EOF, an injected error or Close.
type vrtConn struct {
	stream  bool     // length-prefixed stream (TCP) or datagrams (UDP)
	rx      []byte   // stream: bytes queued for the client
	rxFrame [][]byte // datagram: frames queued for the client
	frames  [][]byte // every frame the client wrote (length header stripped)
	writes  int
	eof     bool // server closed its side after the queued bytes
	eofWithData bool // the Read that returns the last queued bytes also returns io.EOF
	rdErr   bool // a read error follows the queued bytes
	wrErrAt int  // fail the k-th Write (1-based), 0 = never
	closed  bool // Close called by the client
	closes  int
	reads   int
	// synchronous mode: Write returns only after the reader has consumed the
	// server's reply to this frame and has come back for more (pins the
	// "reply before the caller parks" window deterministically, also natively)
	syncWrite   bool
	readEntries int
	inRead      int // Read calls in progress (blocked waiting for bytes)
	replied     int // replies queued so far
	markEntries int // readEntries when the last reply was queued
	onWrite     func(frame []byte) // ghost hook, runs inside the atomic Write step
	// read deadlines (only when enabled): SetReadDeadline/SetDeadline arm a timer that makes
	// the pending and later Reads fail with a timeout, like a socket
	deadlines bool
	rdTimer   *time.Timer
	rdExpired bool
	gen       int
}

var (
	vrtErrReset = errors.New("vrt: connection reset")
	vrtErrUse   = errors.New("vrt: use of closed connection")
)

func (c *vrtConn) Read(p []byte) (n int, err error) {
	if c.syncWrite {
		vrtAtomic(func() { c.readEntries++; c.inRead++ })
	}
	vrtAwait(func() bool {
		return vrtOr(len(c.rx) > 0, len(c.rxFrame) > 0, c.eof, c.rdErr, c.closed, c.rdExpired)
	}, func() {
		c.reads++
		if c.syncWrite {
			c.inRead--
		}
		switch {
		case c.closed:
			err = vrtErrUse
		case c.rdExpired:
			err = os.ErrDeadlineExceeded
		case len(c.rx) > 0:
			n = copy(p, c.rx)
			c.rx = c.rx[n:]
			if c.eofWithData && c.eof && len(c.rx) == 0 {
				err = io.EOF // the last bytes and the end of the stream arrive in one Read (io.Reader allows it; TLS does it)
			}
		case len(c.rxFrame) > 0:
			n = copy(p, c.rxFrame[0])
			c.rxFrame = c.rxFrame[1:]
		case c.rdErr:
			err = vrtErrReset
		default:
			err = io.EOF
		}
	})
	return
}

func (c *vrtConn) Write(p []byte) (n int, err error) {
	vrtAtomic(func() {
		c.writes++
		if c.closed {
			err = vrtErrUse
			return
		}
		if c.wrErrAt != 0 && c.writes >= c.wrErrAt {
			err = vrtErrReset
			return
		}
		f := append([]byte(nil), p...)
		if c.stream {
			f = f[2:]
		}
		c.frames = append(c.frames, f)
		n = len(p)
		if c.onWrite != nil {
			c.onWrite(f)
		}
	})
	if c.syncWrite && err == nil {
		k := len(c.frames)
		// the reader has taken every byte of the reply to this frame and is waiting for more (however
		// many Read calls it needed for that): the reply has been handed to its caller ...
		// ... and, if the server closes right after that reply, the reader has seen the EOF
		// and closed the connection (reply and close both consumed "during the send")
		vrtAwait(func() bool {
			return vrtOr(c.closed, vrtAnd(c.replied >= k, len(c.rx) == 0, len(c.rxFrame) == 0, c.inRead > 0, !c.eof))
		}, func() {})
	}
	return
}

func (c *vrtConn) Close() error {
	vrtAtomic(func() { c.closed = true; c.closes++ })
	return nil
}

// deadlines never fire in these harnesses; like a real socket, setting one on a closed connection fails
func (c *vrtConn) setDeadline(t time.Time, read bool) (err error) {
	vrtAtomic(func() {
		if c.closed {
			err = vrtErrUse
			return
		}
		if !c.deadlines || !read {
			return
		}
		c.gen++
		g := c.gen
		c.rdExpired = false
		if c.rdTimer != nil {
			c.rdTimer.Stop()
		}
		if t.IsZero() {
			return
		}
		c.rdTimer = time.AfterFunc(time.Until(t), func() {
			vrtAtomic(func() {
				if c.gen == g {
					c.rdExpired = true
				}
			})
		})
	})
	return
}
func (c *vrtConn) SetDeadline(t time.Time) error      { return c.setDeadline(t, true) }
func (c *vrtConn) SetReadDeadline(t time.Time) error  { return c.setDeadline(t, true) }
func (c *vrtConn) SetWriteDeadline(t time.Time) error { return c.setDeadline(t, false) }

// serverSend queues one reply (called inside an atomic environment step).
func (c *vrtConn) serverSend(payload []byte) {
	c.replied++
	c.markEntries = c.readEntries
	if c.stream {
		c.rx = append(c.rx, byte(len(payload)>>8), byte(len(payload)))
		c.rx = append(c.rx, payload...)
	} else {
		c.rxFrame = append(c.rxFrame, append([]byte(nil), payload...))
	}
}

// vrtMsg builds a 14-byte message: header with the given ID and a 2-byte tag
// that stands for the (distinct) question.
func vrtWire(id uint16, tag uint16) []byte {
	m := make([]byte, 14)
	m[0], m[1] = byte(id>>8), byte(id)
	m[12], m[13] = byte(tag>>8), byte(tag)
	return m
}

func vrtWireID(m []byte) uint16  { return uint16(m[0])<<8 | uint16(m[1]) }
func vrtWireTag(m []byte) uint16 { return uint16(m[12])<<8 | uint16(m[13]) }

// vrtSetCounter sets a wire-ID counter of whatever unsigned width to v, or to v below the
// maximum of its type (the state after an arbitrary number of earlier queries, whatever the
// counter's representation).
func vrtSetCounter[T ~uint16 | ~uint32 | ~uint64](p *T, v uint16, fromTop bool) {
	if fromTop {
		*p = ^T(0) - T(v)
	} else {
		*p = T(v)
	}
}
