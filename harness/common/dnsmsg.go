//go:build verif

package PKG

import (
	"net"

	"github.com/miekg/dns"
)

// vrtRR returns a resource record of the chosen kind with symbolic TTL and
// (short) symbolic data.  kind: 0 A, 1 CNAME, 2 SOA, 3 OPT, 4 AAAA, 5 TXT.
func vrtRR(kind int, name string) dns.RR {
	hdr := dns.RR_Header{Name: name, Class: dns.ClassINET, Ttl: vrtU32()}
	switch kind {
	case 0:
		hdr.Rrtype = dns.TypeA
		return &dns.A{Hdr: hdr, A: net.IP(vrtBytes(4))}
	case 1:
		hdr.Rrtype = dns.TypeCNAME
		return &dns.CNAME{Hdr: hdr, Target: vrtString(2)}
	case 2:
		hdr.Rrtype = dns.TypeSOA
		return &dns.SOA{Hdr: hdr, Ns: "n.", Mbox: "m.", Serial: vrtU32(), Minttl: vrtU32()}
	case 3:
		hdr.Rrtype = dns.TypeOPT
		hdr.Name = "."
		hdr.Class = vrtU16()
		return &dns.OPT{Hdr: hdr}
	case 4:
		hdr.Rrtype = dns.TypeAAAA
		return &dns.AAAA{Hdr: hdr, AAAA: net.IP(vrtBytes(16))}
	}
	hdr.Rrtype = dns.TypeTXT
	return &dns.TXT{Hdr: hdr, Txt: []string{vrtString(1)}}
}

// vrtSection returns 0..max records whose kinds are chosen among kinds.
func vrtSection(max int, kinds []int, name string) []dns.RR {
	n := vrtChoice(max + 1)
	var out []dns.RR
	for i := 0; i < n; i++ {
		k := kinds[0]
		if len(kinds) > 1 {
			k = kinds[vrtChoice(len(kinds))]
		}
		out = append(out, vrtRR(k, name))
	}
	return out
}

// vrtHeader fills the header of m with symbolic flags.
func vrtHeader(m *dns.Msg) {
	m.Id = vrtU16()
	m.Response = vrtBool()
	m.Opcode = int(vrtU8() & 0xf)
	m.Authoritative = vrtBool()
	m.Truncated = vrtBool()
	m.RecursionDesired = vrtBool()
	m.RecursionAvailable = vrtBool()
	m.Zero = vrtBool()
	m.AuthenticatedData = vrtBool()
	m.CheckingDisabled = vrtBool()
	m.Rcode = int(vrtU16() & 0xfff)
}

// vrtFitsUDP: the reply was truncated for a UDP client advertising size bytes.
// Symbolic run: dns.Msg.Truncate was called exactly once on m, with exactly
// this size, after the last additional record was attached.  Native run: the
// real Truncate ran, so the packed length must not exceed size.
func vrtFitsUDP(m *dns.Msg, size int) bool { return m.Len() <= size }
