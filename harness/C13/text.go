//go:build verif

package netlist

import "strings"

// Rule text (LoadFromText / LoadFromReader): single addresses and prefixes in IPv4, IPv6 and
// IPv4-mapped notation, with host bits set, comments and blank lines.  The rule strings are
// concrete (netip's parser runs on them), the queried address is arbitrary.
func vrtHarness_C13_text() {
	type rule struct {
		text string
		ref  vrtPfx
	}
	v4 := func(a, b, c, d byte, bits uint) vrtPfx {
		var p vrtPfx
		p.a16[10], p.a16[11] = 0xff, 0xff
		p.a16[12], p.a16[13], p.a16[14], p.a16[15] = a, b, c, d
		p.bits = 96 + bits
		return p
	}
	v6 := func(hi0, hi1, hi2, hi3, hi4, hi5 byte, bits uint) vrtPfx {
		var p vrtPfx
		p.a16[0], p.a16[1], p.a16[2], p.a16[3], p.a16[4], p.a16[5] = hi0, hi1, hi2, hi3, hi4, hi5
		p.bits = bits
		return p
	}
	rules := []rule{
		{"192.0.2.77", v4(192, 0, 2, 77, 32)},
		{"198.51.100.99/24", v4(198, 51, 100, 99, 24)}, // host bits set
		{"::ffff:203.0.113.5", v4(203, 0, 113, 5, 32)}, // mapped single address
		{"::ffff:10.1.2.3/104", v4(10, 1, 2, 3, 8)},     // mapped prefix: /104 is 10.0.0.0/8
		{"2001:db8::/32", v6(0x20, 0x01, 0x0d, 0xb8, 0, 0, 32)},
		{"2001:db9:ffff::1/33", v6(0x20, 0x01, 0x0d, 0xb9, 0xff, 0xff, 33)}, // host bits set: covers 2001:db9:8000::/33
		{"0.0.0.0/0", v4(0, 0, 0, 0, 0)},
	}
	// any two of the rules (the catch-all only as a choice of its own), in either order
	n := len(rules) - 1
	i, j := vrtChoice(n), vrtChoice(n)
	sel := []rule{rules[i], rules[j]}
	if vrtChoice(8) == 0 {
		sel = []rule{rules[n]}
	}
	l := NewList()
	if vrtChoice(2) == 0 {
		for _, r := range sel {
			vrtAssert("rule text is accepted", LoadFromText(l, r.text) == nil)
		}
	} else {
		var sb strings.Builder
		sb.WriteString("# comment\n\n")
		for _, r := range sel {
			sb.WriteString("  " + r.text + "  # trailing comment\n")
		}
		vrtAssert("rule file is accepted", LoadFromReader(l, strings.NewReader(sb.String())) == nil)
		vrtCover("loaded from a reader", true)
	}
	l.Sort()
	vrtAssert("every rule line is one entry", l.Len() <= len(sel))
	q, q16, _ := vrtAddr()
	got := l.Contains(q)
	want := false
	for _, r := range sel {
		want = vrtOr(want, vrtCovers(r.ref, q16))
	}
	vrtCover("address contained", got)
	vrtCover("address not contained", !got)
	vrtAssert("Contains(addr) == some loaded rule covers addr", got == want)
}
