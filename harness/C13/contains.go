//go:build verif

package netlist

import "net/netip"

type vrtPfx struct {
	a16  [16]byte // address in IPv6 (mapped) form, host bits as given
	bits uint     // prefix length in IPv6 terms (0..128)
}

func vrtBe64(b []byte) uint64 {
	return uint64(b[0])<<56 | uint64(b[1])<<48 | uint64(b[2])<<40 | uint64(b[3])<<32 |
		uint64(b[4])<<24 | uint64(b[5])<<16 | uint64(b[6])<<8 | uint64(b[7])
}

// vrtAddr returns an arbitrary IPv4 or IPv6 address and its 16-byte form.
func vrtAddr() (netip.Addr, [16]byte, bool) {
	var a16 [16]byte
	if vrtParam("v4only", 0) == 1 || vrtChoice(2) == 0 {
		var a4 [4]byte
		for i := range a4 {
			a4[i] = vrtU8()
		}
		a16[10], a16[11] = 0xff, 0xff
		copy(a16[12:], a4[:])
		return netip.AddrFrom4(a4), a16, true
	}
	for i := range a16 {
		a16[i] = vrtU8()
	}
	return netip.AddrFrom16(a16), a16, false
}

// reference: does prefix p cover address a (both in IPv6 form)?
func vrtCovers(p vrtPfx, a [16]byte) bool {
	ph, pl := vrtBe64(p.a16[0:8]), vrtBe64(p.a16[8:16])
	ah, al := vrtBe64(a[0:8]), vrtBe64(a[8:16])
	hiOnly := vrtOr(p.bits == 0, (ph^ah)>>(64-p.bits) == 0)
	both := vrtAnd(ph == ah, (pl^al)>>(128-p.bits) == 0)
	return vrtOr(vrtAnd(p.bits <= 64, hiOnly), vrtAnd(p.bits > 64, both))
}

func vrtHarness_C13_contains() {
	k := vrtParam("prefixes", 2)
	l := NewList()
	var ref []vrtPfx
	for i := 0; i < k; i++ {
		addr, a16, is4 := vrtAddr()
		bits := int(vrtU8())
		if is4 {
			vrtAssume(bits <= 32)
			ref = append(ref, vrtPfx{a16: a16, bits: uint(bits) + 96})
		} else {
			vrtAssume(bits <= 128)
			ref = append(ref, vrtPfx{a16: a16, bits: uint(bits)})
		}
		l.Append(netip.PrefixFrom(addr, bits))
	}
	l.Sort()
	q, q16, _ := vrtAddr()
	got := l.Contains(q)
	want := false
	for _, p := range ref {
		want = vrtOr(want, vrtCovers(p, q16))
	}
	vrtCover("address contained", got)
	vrtCover("address not contained", !got)
	vrtAssert("Contains(addr) == some loaded prefix covers addr", got == want)
	vrtAssert("Match agrees with Contains", l.Match(q) == got)
}
