//go:build verif

package transport

import (
	"context"
	"time"
)

// Queries that queue on a connection another query is dialing: k queries arrive while the
// first dial is held; the dial completes, the connection takes the queries and dies without
// answering (EOF, or the dial itself fails); every later dial is healthy.  Only the query the
// connection was opened for may report that failure; the queued ones were not sent on a
// connection opened for them and must be retried and answered.
func vrtHarness_C08_queued() {
	k := 2 + vrtChoice(vrtParam("max_queued", 2)-1)
	dialFails := vrtChoice(2) == 1
	released := false
	var conns []*vrtConn
	dials := 0
	t := NewPipelineTransport(PipelineOpts{MaxConcurrentQueryWhileDialing: 4, DialContext: func(ctx context.Context) (DnsConn, error) {
		first := false
		vrtAtomic(func() { dials++; first = dials == 1 })
		if first {
			vrtAwait(func() bool { return released }, func() {})
			if dialFails {
				return nil, vrtErrReset
			}
		}
		var c *vrtConn
		vrtAtomic(func() {
			c = &vrtConn{stream: true}
			conns = append(conns, c)
			if first {
				go func() { // takes whatever is sent, then closes without answering
					vrtDaemon()
					vrtAwait(func() bool { return len(c.frames) >= k }, func() { c.eof = true })
				}()
			} else {
				vrtServe(c, vrtKill{healthy: true})
			}
		})
		return NewDnsConn(TraditionalDnsConnOpts{WithLengthHeader: true, MaxConcurrentQuery: 4}, c), nil
	}})
	ctx, cancel := context.WithTimeout(context.Background(), 2*time.Second)
	defer cancel()
	okN, failN := 0, 0
	for i := 0; i < k; i++ {
		i := i
		go func() {
			r, err := t.ExchangeContext(ctx, vrtWire(uint16(i), uint16(100+i)))
			vrtAtomic(func() {
				if err == nil {
					okN++
					vrtAssert("the answer is the query's own", vrtAnd(len(*r) == 14, vrtWireTag(*r) == uint16(100+i)))
				} else {
					failN++
				}
			})
		}()
	}
	vrtWaitQuiescent() // all k queries wait on the one dialing connection
	vrtAssume(dials == 1)
	vrtAtomic(func() { released = true })
	vrtWaitQuiescent()
	vrtCover("queued queries retried", okN > 0)
	vrtAssert("every query returned", okN+failN == k)
	vrtAssert("only the query the failed connection was opened for may fail; queued queries are retried on a fresh connection", failN <= 1)
	for i := 0; i < k; i++ {
		vrtAssert("a query is never transmitted on more than 4 connections", vrtCountTag(conns, uint16(100+i)) <= 4)
	}
}
