//go:build verif

package transport

import (
	"context"
	"time"
)

// Server behaviour of one connection: it answers `answers` queries and then dies in one of
// three ways: EOF right after the last reply (close while idle / right after a reply),
// EOF instead of the next reply (close with a query in flight), or a reset on the next write.
type vrtKill struct {
	answers int
	mode    int // 0 eof after last reply, 1 eof instead of next reply, 2 next write fails
	healthy bool
}

func vrtServe(c *vrtConn, k vrtKill) {
	go func() {
		vrtDaemon()
		if k.healthy {
			for i := 0; i < 4; i++ {
				ii := i
				vrtAwait(func() bool { return len(c.frames) > ii }, func() { c.serverSend(c.frames[ii]) })
			}
			return
		}
		for i := 0; i < k.answers; i++ {
			ii := i
			vrtAwait(func() bool { return len(c.frames) > ii }, func() {
				c.serverSend(c.frames[ii])
				if ii == k.answers-1 && k.mode == 0 {
					c.eof = true
				}
			})
		}
		switch {
		case k.answers == 0 && k.mode == 0:
			vrtAtomic(func() { c.eof = true })
		case k.mode == 1:
			vrtAwait(func() bool { return len(c.frames) > k.answers }, func() { c.eof = true })
		}
	}()
}

func vrtCountTag(conns []*vrtConn, tag uint16) (n int) {
	for _, c := range conns {
		for _, f := range c.frames {
			if vrtWireTag(f) == tag {
				n++
				break // connections, not frames
			}
		}
	}
	return
}

// Non-pipelined transport, a stream of sequential queries, connections killed on a script.
func vrtHarness_C08_reuse() { vrtC08(false) }

// Pipelined transport (lazy dial + TraditionalDnsConn), same scripts.
func vrtHarness_C08_pipeline() { vrtC08(true) }

type vrtExchanger interface {
	ExchangeContext(ctx context.Context, m []byte) (*[]byte, error)
}

func vrtC08(pipeline bool) {
	var conns []*vrtConn
	var healthyAt []bool
	kills := []vrtKill{
		{answers: 1 + vrtChoice(2), mode: vrtChoice(3)}, // first connection serves 1-2 queries, then dies
		{answers: vrtChoice(2), mode: vrtChoice(3), healthy: vrtChoice(2) == 1},
	}
	dialFail := vrtChoice(3) // 0 never, k: the k-th dial (after the first) fails
	dials := 0
	dial := func(ctx context.Context) (NetConn, error) {
		var c *vrtConn
		var err error
		vrtAtomic(func() {
			dials++
			if dialFail != 0 && dials == dialFail+1 {
				err = vrtErrReset
				return
			}
			c = &vrtConn{stream: true}
			k := vrtKill{healthy: true}
			if len(conns) < len(kills) {
				k = kills[len(conns)]
			}
			if !k.healthy && k.mode == 2 {
				c.wrErrAt = k.answers + 1
			}
			conns = append(conns, c)
			healthyAt = append(healthyAt, k.healthy)
			vrtServe(c, k)
		})
		if err != nil {
			return nil, err
		}
		return c, nil
	}
	var t vrtExchanger
	if pipeline {
		t = NewPipelineTransport(PipelineOpts{MaxConcurrentQueryWhileDialing: 4, DialContext: func(ctx context.Context) (DnsConn, error) {
			c, err := dial(ctx)
			if err != nil {
				return nil, err
			}
			return NewDnsConn(TraditionalDnsConnOpts{WithLengthHeader: true, MaxConcurrentQuery: 4}, c), nil
		}})
	} else {
		t = NewReuseConnTransport(ReuseConnOpts{DialContext: dial})
	}
	ctx, cancel := context.WithTimeout(context.Background(), 400*time.Millisecond)
	defer cancel()
	nq := 2 + vrtChoice(vrtParam("max_queries", 3)-1)
	for q := 0; q < nq; q++ {
		connsBefore, dialsBefore := len(conns), dials
		tag := uint16(100 + q)
		r, err := t.ExchangeContext(ctx, vrtWire(uint16(q), tag))
		used := vrtCountTag(conns, tag)
		fresh := len(conns) - connsBefore // connections dialled for this call
		vrtAssert("a query is never transmitted on more than 4 connections", used <= 4)
		if err == nil {
			vrtCover("query answered", true)
			vrtAssert("the answer is the query's own", vrtAnd(len(*r) == 14, vrtWireTag(*r) == tag))
			if used > 1 {
				vrtCover("answered after a transparent retry", true)
			}
		} else {
			vrtCover("query failed", true)
			// failure is reported only after an attempt on a connection opened for this call failed
			// (or a dial for it failed), or the attempt bound was reached
			vrtAssert("failure only after a fresh attempt failed or the attempt bound was reached", vrtOr(fresh > 0, dials > dialsBefore, used >= 4))
			for i := connsBefore; i < len(conns); i++ {
				vrtAssert("a query succeeds if a fresh connection to the server works", !healthyAt[i])
			}
		}
	}
}

// Many stale pooled connections: k concurrent warm-up queries on a pipelined transport whose
// connections carry one query each (or on the non-pipelined transport) leave k pooled connections; then every server dies
// silently (EOF instead of the next reply).  The next query must not be transmitted on more
// than 4 connections, whatever the pool looks like.
func vrtHarness_C08_stalePool() {
	k := vrtParam("pool", 5)
	var conns []*vrtConn
	dead := false
	dial := func(ctx context.Context) (NetConn, error) {
		var c *vrtConn
		vrtAtomic(func() {
			c = &vrtConn{stream: true}
			conns = append(conns, c)
			go func() { // answers its first query; later, once the servers are dead, EOF instead of a reply
				vrtDaemon()
				// the warm-up answers are held until all k queries are on the wire: k connections get pooled
				vrtAwait(func() bool {
					n := 0
					for _, o := range conns {
						n += len(o.frames)
					}
					return len(c.frames) > 0 && n >= k
				}, func() { c.serverSend(c.frames[0]) })
				vrtAwait(func() bool { return len(c.frames) > 1 }, func() {
					if dead {
						c.eof = true
					} else {
						c.serverSend(c.frames[1])
					}
				})
			}()
		})
		return c, nil
	}
	var t vrtExchanger
	if vrtChoice(2) == 0 {
		t = NewPipelineTransport(PipelineOpts{MaxConcurrentQueryWhileDialing: 1, DialContext: func(ctx context.Context) (DnsConn, error) {
			c, _ := dial(ctx)
			return NewDnsConn(TraditionalDnsConnOpts{WithLengthHeader: true, MaxConcurrentQuery: 1}, c), nil
		}})
	} else {
		// the non-pipelined transport: k concurrent queries dial k connections, all pooled afterwards
		t = NewReuseConnTransport(ReuseConnOpts{DialContext: dial})
		vrtCover("non-pipelined pool", true)
	}
	ctx, cancel := context.WithTimeout(context.Background(), 2*time.Second)
	defer cancel()
	okN := 0
	for i := 0; i < k; i++ {
		i := i
		go func() {
			_, err := t.ExchangeContext(ctx, vrtWire(uint16(i), uint16(200+i)))
			vrtAtomic(func() {
				if err == nil {
					okN++
				}
			})
		}()
	}
	vrtWaitQuiescent()
	vrtAssume(okN == k && len(conns) == k) // k pooled connections, all idle
	vrtAtomic(func() { dead = true })
	_, err := t.ExchangeContext(ctx, vrtWire(9, 100))
	used := vrtCountTag(conns, 100)
	vrtCover("query hit stale connections", used > 1)
	vrtAssert("a query is never transmitted on more than 4 connections", used <= 4)
	_ = err
}
