//go:build verif

package dnsutils

import (
	"errors"
	"io"

	"github.com/IrineSistiana/mosdns/v5/pkg/pool"
)

// vrtStream is an io.Reader over a fixed byte stream that delivers it in
// chunks of symbolic size (at most maxPartial partial reads, then as much as
// asked), and ends with io.EOF or, optionally, a custom error.
type vrtStream struct {
	data       []byte
	pos        int
	partial    int
	maxPartial int
	endErr     error
	reads      int
}

var vrtErrBroken = errors.New("vrt: broken stream")

func (s *vrtStream) Read(p []byte) (int, error) {
	s.reads++
	rem := len(s.data) - s.pos
	if rem == 0 {
		return 0, s.endErr
	}
	if len(p) == 0 {
		return 0, nil
	}
	n := len(p)
	if rem < n {
		n = rem
	}
	if s.partial < s.maxPartial {
		s.partial++
		k := vrtInt()
		vrtAssume(vrtAnd(k >= 1, k <= n))
		n = k
	}
	copy(p[:n], s.data[s.pos:s.pos+n])
	s.pos += n
	return n, nil
}

type vrtSink struct {
	writes int
	buf    []byte
}

func (w *vrtSink) Write(p []byte) (int, error) {
	w.writes++
	w.buf = append(w.buf, p...)
	return len(p), nil
}

// Reading: an arbitrary stream (arbitrary length header, arbitrary bytes,
// arbitrary chunking, ending anywhere) yields exactly the announced bytes or an error.
func vrtHarness_C16_read() {
	total := vrtChoice(vrtParam("max_stream", 18) + 1) // stream length 0..max
	data := vrtBytes(total)
	s := &vrtStream{data: data, maxPartial: vrtParam("max_partial", 2), endErr: io.EOF}
	if vrtChoice(2) == 1 {
		s.endErr = vrtErrBroken
	}
	b, err := ReadRawMsgFromTCP(s)
	if total < 2 {
		vrtAssert("stream shorter than the length header: error", vrtAnd(err != nil, b == nil))
		return
	}
	announced := int(data[0])<<8 | int(data[1])
	if err != nil {
		vrtCover("read error", true)
		vrtAssert("error returns no buffer", b == nil)
		vrtAssert("error only if length <= 12 or stream too short", vrtOr(announced <= 12, announced > total-2))
		return
	}
	vrtCover("frame read", true)
	vrtAssert("no error only for length > 12", announced > 12)
	vrtAssert("no error only if the whole body was available", announced <= total-2)
	vrtAssert("buffer has exactly the announced length", len(*b) == announced)
	i := vrtInt()
	vrtAssume(vrtAnd(i >= 0, i < announced))
	vrtAssert("buffer holds exactly the next bytes of the stream", (*b)[i] == data[2+i])
	vrtAssert("reader consumed exactly header+body", s.pos == 2+announced)
	pool.ReleaseBuf(b)
}

// Writing: one Write of BE16(len) || msg; round trip through the reader is the identity.
func vrtHarness_C16_write() {
	n := 13 + vrtChoice(vrtParam("max_extra", 6)+1)
	msg := vrtBytes(n)
	w := &vrtSink{}
	wn, err := WriteRawMsgToTCP(w, msg)
	vrtAssert("write of a legal message succeeds", err == nil)
	vrtAssert("exactly one Write call", w.writes == 1)
	vrtAssert("reported length is header+body", wn == n+2)
	vrtAssert("frame length on the wire", len(w.buf) == n+2)
	vrtAssert("big-endian length header", vrtAnd(w.buf[0] == byte(n>>8), w.buf[1] == byte(n)))
	vrtAssert("body follows the header unchanged", vrtBytesEq(w.buf[2:], msg))
	// round trip with arbitrary chunking
	s := &vrtStream{data: w.buf, maxPartial: vrtParam("max_partial", 2), endErr: io.EOF}
	b, err := ReadRawMsgFromTCP(s)
	vrtCover("round trip", err == nil)
	vrtAssert("round trip: no error", err == nil)
	vrtAssert("round trip: identity", vrtBytesEq(*b, msg))
}

// Oversized messages are refused and nothing is written.
func vrtHarness_C16_writeTooBig() {
	msg := make([]byte, 65536+vrtChoice(2))
	w := &vrtSink{}
	_, err := WriteRawMsgToTCP(w, msg)
	vrtCover("oversized refused", err != nil)
	vrtAssert("message longer than 65535 bytes is refused", err != nil)
	vrtAssert("nothing written for an oversized message", w.writes == 0)
	ok := make([]byte, 65535)
	ok[0], ok[65534] = vrtU8(), vrtU8()
	w2 := &vrtSink{}
	_, err = WriteRawMsgToTCP(w2, ok)
	vrtAssert("65535-byte message accepted", err == nil)
	vrtAssert("65535-byte message: header 0xffff", vrtAnd(w2.buf[0] == 0xff, w2.buf[1] == 0xff, len(w2.buf) == 65537))
	vrtAssert("65535-byte message: first and last byte in place", vrtAnd(w2.buf[2] == ok[0], w2.buf[65536] == ok[65534]))
}
