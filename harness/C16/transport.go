//go:build verif

package transport

import "errors"

type vrtDgram struct {
	frames [][]byte
	pos    int
}

var vrtErrClosed = errors.New("vrt: closed")

func (d *vrtDgram) Read(p []byte) (int, error) {
	if d.pos >= len(d.frames) {
		return 0, vrtErrClosed
	}
	f := d.frames[d.pos]
	d.pos++
	return copy(p, f), nil
}

func vrtHarness_C16_copyHdr() {
	n := 12 + vrtChoice(vrtParam("max_extra", 6)+1)
	msg := vrtBytes(n)
	bp, err := copyMsgWithLenHdr(msg)
	vrtCover("framed copy", err == nil)
	vrtAssert("legal message framed", err == nil)
	vrtAssert("frame length", len(*bp) == n+2)
	vrtAssert("big-endian length header", vrtAnd((*bp)[0] == byte(n>>8), (*bp)[1] == byte(n)))
	vrtAssert("body unchanged", vrtBytesEq((*bp)[2:], msg))
	c := copyMsg(msg)
	vrtAssert("copyMsg is an exact private copy", vrtAnd(len(*c) == n, vrtBytesEq(*c, msg)))
	big := make([]byte, 65536)
	_, err = copyMsgWithLenHdr(big)
	vrtAssert("oversized message refused", err == ErrPayloadOverFlow)
}

// readMsgUdp skips datagrams shorter than a header and returns the next one unchanged.
func vrtHarness_C16_readUdp() {
	k := vrtChoice(3)
	d := &vrtDgram{}
	for i := 0; i < k; i++ {
		d.frames = append(d.frames, vrtBytes(vrtChoice(12))) // 0..11 bytes: too short
	}
	n := 12 + vrtChoice(vrtParam("max_extra", 4)+1)
	good := vrtBytes(n)
	d.frames = append(d.frames, good)
	b, err := readMsgUdp(d)
	vrtCover("datagram read", err == nil)
	vrtAssert("no error", err == nil)
	vrtAssert("short datagrams skipped, next one returned unchanged", vrtAnd(len(*b) == n, vrtBytesEq(*b, good)))
	b2, err := readMsgUdp(d)
	vrtAssert("closed socket: error and no buffer", vrtAnd(err != nil, b2 == nil))
}
