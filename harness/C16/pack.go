//go:build verif

package pool

import "github.com/miekg/dns"

// natively: a message of exactly n wire bytes (n >= 64), padded with TXT records
func vrtMsgOfSize(n int) *dns.Msg {
	m := new(dns.Msg)
	m.Id = 1
	m.Question = []dns.Question{{Name: "a.", Qtype: dns.TypeTXT, Qclass: dns.ClassINET}}
	for m.Len() < n-300 {
		m.Answer = append(m.Answer, &dns.TXT{Hdr: dns.RR_Header{Name: "a.", Rrtype: dns.TypeTXT, Class: dns.ClassINET, Ttl: 1}, Txt: []string{string(make([]byte, 200))}})
	}
	last := &dns.TXT{Hdr: dns.RR_Header{Name: "a.", Rrtype: dns.TypeTXT, Class: dns.ClassINET, Ttl: 1}, Txt: []string{""}}
	m.Answer = append(m.Answer, last)
	for k := 0; k < 300 && m.Len() < n; k++ {
		last.Txt[0] = string(make([]byte, k))
	}
	return m
}

// PackTCPBuffer / PackBuffer: the frame is BE16(len(wire)) || wire for whatever
// buffer the codec chose to build the wire image in.
func vrtHarness_C16_packTCP() {
	m := new(dns.Msg)
	m.Id = vrtU16()
	m.Question = []dns.Question{{Name: "a.", Qtype: dns.TypeA, Qclass: dns.ClassINET}}
	if !vrtSymbolic() {
		// native replay: exercise the sizes around the scratch buffer (8191 bytes)
		sizes := []int{100, 8186, 8187, 8188, 8189, 8190, 8191, 8192, 9000}
		m = vrtMsgOfSize(sizes[vrtChoiceNative(len(sizes))])
	}
	b, err := PackTCPBuffer(m)
	if err != nil {
		vrtCover("pack error", true)
		vrtAssert("error returns no buffer", b == nil)
		return
	}
	wire, err := m.Pack()
	vrtAssume(err == nil)
	want := append([]byte(nil), wire...)
	vrtCover("framed", true)
	f := *b
	vrtAssert("frame is two bytes longer than the wire image", len(f) == len(want)+2)
	vrtAssert("big-endian length header", vrtAnd(f[0] == byte(len(want)>>8), f[1] == byte(len(want))))
	vrtAssert("body is the wire image", vrtBytesEq(f[2:], want))
	u, err := PackBuffer(m)
	vrtAssume(err == nil)
	vrtAssert("PackBuffer returns exactly the wire image", vrtBytesEq(*u, want))
	ReleaseBuf(b)
	ReleaseBuf(u)
}
