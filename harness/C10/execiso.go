//go:build verif

package cache

import (
	"context"

	"github.com/IrineSistiana/mosdns/v5/pkg/query_context"
	"github.com/IrineSistiana/mosdns/v5/plugin/executable/sequence"
	"github.com/miekg/dns"
)

type vrtIsoUp struct{ calls int }

func (u *vrtIsoUp) Exec(ctx context.Context, qCtx *query_context.Context) error {
	if qCtx.R() != nil {
		return nil
	}
	u.calls++
	r := new(dns.Msg)
	r.SetReply(qCtx.Q())
	r.Answer = []dns.RR{
		&dns.A{Hdr: dns.RR_Header{Name: "a.", Rrtype: dns.TypeA, Class: dns.ClassINET, Ttl: 300}, A: []byte{192, 0, 2, 1}},
		&dns.TXT{Hdr: dns.RR_Header{Name: "a.", Rrtype: dns.TypeTXT, Class: dns.ClassINET, Ttl: 300}, Txt: []string{"x"}},
	}
	r.Ns = []dns.RR{&dns.SOA{Hdr: dns.RR_Header{Name: "a.", Rrtype: dns.TypeSOA, Class: dns.ClassINET, Ttl: 300}, Ns: "ns.", Mbox: "m.", Serial: 1, Minttl: 60}}
	qCtx.SetResponse(r)
	return nil
}

// End to end through Cache.Exec: the first query is a miss; as soon as Exec has returned,
// whatever runs behind the cache rewrites the response it was given in place (TTL plugins,
// the server appending OPT and truncating); later the same question is asked again.  The
// hit is the answer as the upstream gave it, not what the first client's copy was turned into.
func vrtHarness_C10_execIsolation() {
	c := NewCache(&Args{Size: 1024}, Opts{})
	up := &vrtIsoUp{}
	next := sequence.NewChainWalker([]*sequence.ChainNode{{E: up}}, nil)
	mk := func(id uint16) *query_context.Context {
		q := new(dns.Msg)
		q.Id = id
		q.RecursionDesired = true
		q.Question = []dns.Question{{Name: "a.", Qtype: dns.TypeA, Qclass: dns.ClassINET}}
		return query_context.NewContext(q)
	}
	c1 := mk(1)
	vrtAssert("no error", c.Exec(context.Background(), c1, next) == nil)
	orig := c1.R().Copy() // reference: the upstream's answer
	vrtRewrite(c1.R())    // what later plugins and the server do to the first client's response
	vrtWaitQuiescent()
	c2 := mk(2)
	vrtAssert("no error", c.Exec(context.Background(), c2, next) == nil)
	vrtCover("second query", true)
	r2 := c2.R()
	vrtAssert("an answer exists", r2 != nil)
	if up.calls == 1 {
		vrtCover("second query served from cache", true)
		vrtAssert("a hit carries the ID of the query it answers", r2.Id == 2)
		vrtAssert("a hit is the stored answer, whatever was done to the first client's response", vrtMsgEqNoID(r2, orig))
		vrtAssert("a hit shares no mutable state with the first client's response", vrtDisjoint(r2, c1.R()))
	}
}

// vrtRewrite: in-place edits that leave the message cacheable (a TTL plugin, a redirect
// restoring names, the server setting RA and appending the client's OPT)
func vrtRewrite(m *dns.Msg) {
	m.RecursionAvailable = true
	for _, sec := range [][]dns.RR{m.Answer, m.Ns, m.Extra} {
		for _, rr := range sec {
			rr.Header().Ttl = 7
			rr.Header().Name = "rewritten."
			switch x := rr.(type) {
			case *dns.A:
				x.A[3] ^= 0xff
			case *dns.TXT:
				x.Txt[0] = "rewritten"
			case *dns.SOA:
				x.Serial ^= 0xffffffff
			}
		}
	}
	if len(m.Question) > 0 {
		m.Question[0].Name = "rewritten."
	}
	m.Answer = append(m.Answer, &dns.A{Hdr: dns.RR_Header{Name: "evil.", Rrtype: dns.TypeA, Class: dns.ClassINET, Ttl: 7}, A: []byte{6, 6, 6, 6}})
	m.Extra = append(m.Extra, &dns.OPT{Hdr: dns.RR_Header{Name: ".", Rrtype: dns.TypeOPT, Class: 1232}})
}
