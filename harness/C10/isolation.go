//go:build verif

package cache

import (
	"time"

	"github.com/IrineSistiana/mosdns/v5/pkg/cache"
	"github.com/miekg/dns"
)

// field-for-field equality of two records of the kinds the harness builds
func vrtRREq(a, b dns.RR) bool {
	ha, hb := a.Header(), b.Header()
	eq := vrtAnd(vrtStrEq(ha.Name, hb.Name), ha.Rrtype == hb.Rrtype, ha.Class == hb.Class, ha.Ttl == hb.Ttl)
	switch x := a.(type) {
	case *dns.A:
		y, ok := b.(*dns.A)
		return vrtAnd(eq, ok, ok && vrtBytesEq(x.A, y.A))
	case *dns.AAAA:
		y, ok := b.(*dns.AAAA)
		return vrtAnd(eq, ok, ok && vrtBytesEq(x.AAAA, y.AAAA))
	case *dns.CNAME:
		y, ok := b.(*dns.CNAME)
		return vrtAnd(eq, ok, ok && vrtStrEq(x.Target, y.Target))
	case *dns.TXT:
		y, ok := b.(*dns.TXT)
		return vrtAnd(eq, ok, ok && len(x.Txt) == len(y.Txt) && vrtStrEq(x.Txt[0], y.Txt[0]))
	case *dns.SOA:
		y, ok := b.(*dns.SOA)
		return vrtAnd(eq, ok, ok && vrtAnd(x.Serial == y.Serial, x.Minttl == y.Minttl, vrtStrEq(x.Ns, y.Ns), vrtStrEq(x.Mbox, y.Mbox)))
	}
	return false
}

func vrtSecEq(a, b []dns.RR) bool {
	if len(a) != len(b) {
		return false
	}
	r := true
	for i := range a {
		r = vrtAnd(r, vrtRREq(a[i], b[i]))
	}
	return r
}

func vrtMsgEqNoID(a, b *dns.Msg) bool {
	ha, hb := a.MsgHdr, b.MsgHdr
	ha.Id, hb.Id = 0, 0
	q := len(a.Question) == len(b.Question)
	if q {
		for i := range a.Question {
			q = vrtAnd(q, vrtStrEq(a.Question[i].Name, b.Question[i].Name), a.Question[i].Qtype == b.Question[i].Qtype, a.Question[i].Qclass == b.Question[i].Qclass)
		}
	}
	return vrtAnd(ha == hb, q, vrtSecEq(a.Answer, b.Answer), vrtSecEq(a.Ns, b.Ns), vrtSecEq(a.Extra, b.Extra))
}

// adversarial in-place mutation of everything a later plugin could touch
func vrtMutate(m *dns.Msg) {
	m.Id ^= 0xffff
	m.Rcode = dns.RcodeRefused
	m.Truncated = true
	if len(m.Question) > 0 {
		m.Question[0].Name = "mutated."
		m.Question[0].Qtype ^= 0xff
	}
	for _, sec := range [][]dns.RR{m.Answer, m.Ns, m.Extra} {
		for _, rr := range sec {
			rr.Header().Ttl ^= 0xffffffff
			rr.Header().Name = "mutated."
			switch x := rr.(type) {
			case *dns.A:
				x.A[0] ^= 0xff
			case *dns.AAAA:
				x.AAAA[15] ^= 0xff
			case *dns.CNAME:
				x.Target = "mutated."
			case *dns.TXT:
				x.Txt[0] = "mutated"
			case *dns.SOA:
				x.Serial ^= 0xffffffff
			}
		}
	}
	// overwrite slots of the section slices and grow them in place where capacity allows
	if len(m.Answer) > 0 {
		m.Answer[0] = &dns.A{Hdr: dns.RR_Header{Name: "evil.", Rrtype: dns.TypeA, Class: dns.ClassINET, Ttl: 7}, A: []byte{6, 6, 6, 6}}
	}
	m.Answer = append(m.Answer, &dns.A{Hdr: dns.RR_Header{Name: "evil.", Rrtype: dns.TypeA, Class: dns.ClassINET, Ttl: 7}, A: []byte{6, 6, 6, 6}})
	m.Ns = append(m.Ns, &dns.A{Hdr: dns.RR_Header{Name: "evil.", Rrtype: dns.TypeA, Class: dns.ClassINET, Ttl: 7}, A: []byte{6, 6, 6, 6}})
	m.Extra = append(m.Extra, &dns.OPT{Hdr: dns.RR_Header{Name: ".", Rrtype: dns.TypeOPT, Class: 4096}})
	if len(m.Extra) > 1 {
		m.Extra[0] = m.Extra[len(m.Extra)-1]
	}
}

func vrtHarness_C10_isolation() {
	r := new(dns.Msg)
	vrtHeader(r)
	r.Response, r.Truncated, r.Rcode = true, false, dns.RcodeSuccess
	r.Question = []dns.Question{{Name: vrtString(2), Qtype: vrtU16(), Qclass: vrtU16()}}
	n := vrtParam("max_rr", 2)
	r.Answer = vrtSection(n, []int{0, 1, 4, 5}, "a.")
	r.Ns = vrtSection(1, []int{2}, "a.")
	r.Extra = vrtSection(n, []int{0, 3}, "a.")
	for _, sec := range [][]dns.RR{r.Answer, r.Ns, r.Extra} {
		for _, rr := range sec {
			vrtAssume(rr.Header().Ttl >= 100) // stored and still fresh below
		}
	}
	vrtAssume(len(r.Answer)+len(r.Ns) > 0)

	backend := cache.New[key, *item](cache.Opts{Size: 1024})
	vrtAssume(saveRespToCache("k", r, backend, 0))
	it, _, ok := backend.Get("k")
	vrtAssume(ok)
	vrtCover("stored", true)
	vrtAssert("stored copy shares no mutable state with the original answer", vrtDisjoint(it.resp, r))
	for _, rr := range it.resp.Extra {
		vrtAssert("stored copy holds no OPT record", rr.Header().Rrtype != dns.TypeOPT)
	}

	h1, _ := getRespFromCache("k", backend, false, expiredMsgTtl)
	h2, _ := getRespFromCache("k", backend, false, expiredMsgTtl)
	vrtAssume(h1 != nil && h2 != nil)
	vrtAssert("a hit shares no mutable state with the stored copy", vrtDisjoint(h1, it.resp))
	vrtAssert("two hits share no mutable state", vrtDisjoint(h1, h2))
	vrtAssert("two hits at the same instant are equal", vrtMsgEqNoID(h1, h2))

	// whatever later plugins do to a served or to the originally stored message ...
	vrtMutate(h1)
	vrtMutate(r)
	// ... later hits are served what was stored
	h3, _ := getRespFromCache("k", backend, false, expiredMsgTtl)
	vrtAssume(h3 != nil)
	vrtCover("hit after mutation", true)
	vrtAssert("a later hit is unaffected by mutations of an earlier hit and of the original", vrtMsgEqNoID(h3, h2))
}

// The same on the stale (lazy cache) path: the entry's TTL has run out but the
// entry is still kept, hits are served with the fixed stale TTL.
func vrtHarness_C10_isolationLazy() {
	r := new(dns.Msg)
	vrtHeader(r)
	r.Response, r.Truncated, r.Rcode = true, false, dns.RcodeSuccess
	r.Question = []dns.Question{{Name: vrtString(2), Qtype: vrtU16(), Qclass: vrtU16()}}
	n := vrtParam("max_rr", 2)
	r.Answer = vrtSection(n, []int{0, 1, 4, 5}, "a.")
	r.Ns = vrtSection(1, []int{2}, "a.")
	r.Extra = vrtSection(1, []int{0, 3}, "a.")
	vrtAssume(len(r.Answer) > 0)
	for _, sec := range [][]dns.RR{r.Answer, r.Ns, r.Extra} {
		for _, rr := range sec {
			vrtAssume(vrtAnd(rr.Header().Ttl >= 10, rr.Header().Ttl <= 100))
		}
	}
	backend := cache.New[key, *item](cache.Opts{Size: 1024})
	vrtAssume(saveRespToCache("k", r, backend, 86400))
	it, cacheExp, ok := backend.Get("k")
	vrtAssume(ok)
	const e = 1000 * time.Second // every TTL (<= 100 s) has run out, the entry (1 day) is kept
	backend.Flush()
	it.storedTime, it.expirationTime = it.storedTime.Add(-e), it.expirationTime.Add(-e)
	backend.Store("k", it, cacheExp.Add(-e))

	h1, lazy1 := getRespFromCache("k", backend, true, expiredMsgTtl)
	h2, lazy2 := getRespFromCache("k", backend, true, expiredMsgTtl)
	vrtAssume(h1 != nil && h2 != nil)
	vrtCover("stale hits", vrtAnd(lazy1, lazy2))
	vrtAssert("both hits are stale hits", vrtAnd(lazy1, lazy2))
	vrtAssert("a stale hit shares no mutable state with the stored copy", vrtDisjoint(h1, it.resp))
	vrtAssert("two stale hits share no mutable state", vrtDisjoint(h1, h2))
	vrtAssert("two stale hits are equal", vrtMsgEqNoID(h1, h2))
	vrtMutate(h1)
	vrtMutate(r)
	h3, _ := getRespFromCache("k", backend, true, expiredMsgTtl)
	vrtAssume(h3 != nil)
	vrtAssert("a later stale hit is unaffected by mutations of an earlier one and of the original", vrtMsgEqNoID(h3, h2))
}
