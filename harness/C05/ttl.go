//go:build verif

package cache

import (
	"time"

	"github.com/IrineSistiana/mosdns/v5/pkg/cache"
	"github.com/miekg/dns"
)

// reference: smallest TTL over all non-OPT records, and whether there is one
func vrtMinTTL(m *dns.Msg) (uint32, bool) {
	min, has := ^uint32(0), false
	for _, sec := range [][]dns.RR{m.Answer, m.Ns, m.Extra} {
		for _, rr := range sec {
			if rr.Header().Rrtype == dns.TypeOPT {
				continue
			}
			has = true
			t := rr.Header().Ttl
			min = uint32(vrtIteU64(t < min, uint64(t), uint64(min)))
		}
	}
	if !has {
		return 0, false
	}
	return min, true
}

// reference lifetime in seconds per the property text (0 = never stored)
func vrtLifetime(m *dns.Msg) uint64 {
	min, _ := vrtMinTTL(m)
	if m.Truncated {
		return 0
	}
	switch m.Rcode {
	case dns.RcodeNameError:
		return 30
	case dns.RcodeServerFailure:
		return 5
	case dns.RcodeSuccess:
		if len(m.Answer) == 0 {
			return vrtIteU64(min < 300, uint64(min), 300)
		}
		return uint64(min)
	}
	return 0
}

func vrtTTLs(m *dns.Msg) []uint32 {
	var out []uint32
	for _, sec := range [][]dns.RR{m.Answer, m.Ns, m.Extra} {
		for _, rr := range sec {
			out = append(out, rr.Header().Ttl)
		}
	}
	return out
}

func vrtTypes(m *dns.Msg) []uint16 {
	var out []uint16
	for _, sec := range [][]dns.RR{m.Answer, m.Ns, m.Extra} {
		for _, rr := range sec {
			out = append(out, rr.Header().Rrtype)
		}
	}
	return out
}

// Admission, ageing and expiry of one stored answer after an arbitrary elapsed time.
// The elapsed time is applied by shifting the stored instants back (equivalent
// to advancing the clock, and reproducible natively).
func vrtHarness_C05_ageing() {
	r := new(dns.Msg)
	vrtHeader(r)
	r.Response = true
	r.Question = []dns.Question{{Name: "a.", Qtype: dns.TypeA, Qclass: dns.ClassINET}}
	r.Answer = vrtSection(vrtParam("max_rr", 2), []int{0, 1}, "a.")
	r.Ns = vrtSection(1, []int{2}, "a.")
	r.Extra = vrtSection(vrtParam("max_extra", 2), []int{0, 3}, "a.")
	lazy := 0
	if vrtChoice(2) == 1 {
		lazy = int(vrtU32()&0xffffff) + 1
	}
	origTTL, types := vrtTTLs(r), vrtTypes(r)
	life := vrtLifetime(r)

	backend := cache.New[key, *item](cache.Opts{Size: 1024})
	stored := saveRespToCache("k", r, backend, lazy)
	vrtCover("stored", stored)
	vrtCover("not stored", !stored)
	// (that truncated replies are never stored is asserted end to end on both paths that store -
	// C04_exec for misses, C05_lazyRefresh for refreshes - not on this helper: the property
	// does not say which function has to refuse them)
	vrtAssert("stored iff rcode in {NOERROR,NXDOMAIN,SERVFAIL} and lifetime > 0", vrtOr(r.Truncated, stored == (life > 0)))
	vrtAssume(vrtOr(!r.Truncated, !stored))
	if !stored {
		v, _, _ := backend.Get("k")
		vrtAssert("rejected answer leaves no entry", v == nil)
		return
	}
	vrtAssert("NXDOMAIN lives at most 30 s, SERVFAIL 5 s, empty NOERROR min(300, minTTL)", vrtAnd(
		vrtImplies(r.Rcode == dns.RcodeNameError, life == 30),
		vrtImplies(r.Rcode == dns.RcodeServerFailure, life == 5),
		vrtImplies(vrtAnd(r.Rcode == dns.RcodeSuccess, len(r.Answer) == 0), life <= 300)))

	// let eSec seconds + eFrac nanoseconds pass
	// the fraction lies on a 512-ns grid, at least 50 ms away from a whole second (native clock drift;
	// the odd grid offset lets the solver refute 'exactly on a second boundary' from the low bits of 10^9 = 2^9*1953125)
	eSec, eFrac := vrtBelow(1<<31), (97656+vrtBelow(1757813))*512+256
	e := time.Duration(eSec*1000000000 + eFrac)
	it, cacheExp, ok := backend.Get("k")
	vrtAssert("fresh entry is visible", vrtAnd(ok, it != nil))
	backend.Flush()
	it.storedTime = it.storedTime.Add(-e)
	it.expirationTime = it.expirationTime.Add(-e)
	backend.Store("k", it, cacheExp.Add(-e))

	// the lookup side's lazy setting is independent of the one the entry was stored under:
	// a dump written by an instance with another lazy_cache_ttl can be loaded (dump_file, /load_dump)
	lazyOn := lazy > 0
	if vrtChoice(2) == 1 {
		lazyOn = !lazyOn
	}
	vrtCover("entry stored under lazy caching, looked up with lazy caching off", vrtAnd(lazy > 0, !lazyOn))
	resp, lazyHit := getRespFromCache("k", backend, lazyOn, expiredMsgTtl)
	fresh := eSec < life // now < stored + lifetime
	cacheLife := life
	if vrtAnd(lazy > 0, r.Rcode == dns.RcodeSuccess, len(r.Answer) > 0) {
		cacheLife = uint64(lazy)
	}
	// the backend holds the entry up to and including its expiry instant (an entry may be dropped early, never served late)
	keep := eSec < cacheLife
	stale := vrtAnd(!fresh, lazyOn, keep)
	vrtCover("fresh hit", vrtAnd(resp != nil, !lazyHit))
	vrtCover("lazy hit", vrtAnd(resp != nil, lazyHit))
	vrtCover("expired", resp == nil)
	vrtAssert("served fresh iff the smallest TTL has not run out (and the entry is still kept)", vrtAnd(resp != nil, !lazyHit) == vrtAnd(fresh, keep))
	vrtAssert("served stale iff lazy caching is on and the entry is still kept", vrtAnd(resp != nil, lazyHit) == stale)
	if resp == nil {
		return
	}
	got := vrtTTLs(resp)
	vrtAssert("same number of records (OPT is never stored)", len(got) <= len(origTTL))
	j := 0
	for i, t := range origTTL {
		if types[i] == dns.TypeOPT {
			continue
		}
		want := uint32(5)
		if !lazyHit {
			want = uint32(vrtIteU64(uint64(t) > eSec, uint64(t)-eSec, 1))
		}
		vrtAssert("record TTL lowered by the whole seconds elapsed, never below 1 (stale: 5)", got[j] == want)
		j++
	}
	vrtAssert("every stored record is served", j == len(got))
}
