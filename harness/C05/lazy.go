//go:build verif

package cache

import (
	"context"
	"time"

	"github.com/IrineSistiana/mosdns/v5/pkg/query_context"
	"github.com/IrineSistiana/mosdns/v5/plugin/executable/sequence"
	"github.com/miekg/dns"
	"golang.org/x/sync/singleflight"
)

// singleflight contract (the library drags in runtime internals; the symbolic run
// redirects Group.DoChan/Forget to this model): DoChan(key, fn) runs fn in a new
// goroutine unless a call for key is registered, Forget(key) unregisters it.
type vrtSFKey struct {
	g   *singleflight.Group
	key string
}

var vrtSFInFlight map[vrtSFKey]bool

func vrtSFDoChan(g *singleflight.Group, key string, fn func() (interface{}, error)) <-chan singleflight.Result {
	ch := make(chan singleflight.Result, 1)
	var start bool
	vrtAtomic(func() {
		if vrtSFInFlight == nil {
			vrtSFInFlight = map[vrtSFKey]bool{}
		}
		k := vrtSFKey{g, key}
		if !vrtSFInFlight[k] {
			vrtSFInFlight[k] = true
			start = true
		}
	})
	if start {
		go func() {
			v, err := fn()
			vrtAtomic(func() { delete(vrtSFInFlight, vrtSFKey{g, key}) })
			ch <- singleflight.Result{Val: v, Err: err}
		}()
	}
	return ch
}

func vrtSFForget(g *singleflight.Group, key string) {
	vrtAtomic(func() { delete(vrtSFInFlight, vrtSFKey{g, key}) })
}

// vrtRefreshUp is the chain behind the cache.  Calls that find no response are refreshes
// (or misses): they stay in flight until the harness releases them.
type vrtRefreshUp struct {
	inFlight, maxInFlight, refreshes int
	release                          bool
	bad                              int // what a refresh gets: 0 a good answer, 1 a truncated one, 2 REFUSED, 3 a zero-TTL answer
}

func (u *vrtRefreshUp) Exec(ctx context.Context, qCtx *query_context.Context) error {
	if qCtx.R() != nil {
		return nil // served from cache: nothing to do for the rest of the chain
	}
	vrtAtomic(func() {
		u.refreshes++
		u.inFlight++
		if u.inFlight > u.maxInFlight {
			u.maxInFlight = u.inFlight
		}
	})
	vrtAwait(func() bool { return u.release }, func() { u.inFlight-- })
	r := new(dns.Msg)
	r.SetReply(qCtx.Q())
	ttl := uint32(60)
	switch u.bad {
	case 1:
		r.Truncated = true
	case 2:
		r.Rcode = dns.RcodeRefused
	case 3:
		ttl = 0
	}
	r.Answer = []dns.RR{&dns.A{Hdr: dns.RR_Header{Name: "a.", Rrtype: dns.TypeA, Class: dns.ClassINET, Ttl: ttl}, A: []byte{192, 0, 2, 2}}}
	qCtx.SetResponse(r)
	return nil
}

// A burst of queries hits a stale entry while lazy caching is on: each is answered with the
// stale answer (TTL 5, its own ID) and at most one background refresh is in flight.
func vrtHarness_C05_lazyRefresh() {
	c := NewCache(&Args{Size: 1024, LazyCacheTTL: 86400}, Opts{})
	up := &vrtRefreshUp{bad: vrtChoice(4)}
	next := sequence.NewChainWalker([]*sequence.ChainNode{{E: up}}, nil)
	mk := func(id uint16) *query_context.Context {
		q := new(dns.Msg)
		q.Id = id
		q.RecursionDesired = true
		q.Question = []dns.Question{{Name: "a.", Qtype: dns.TypeA, Qclass: dns.ClassINET}}
		return query_context.NewContext(q)
	}
	// a stale entry: stored 1000 s ago with TTL 60, kept for a day
	first := mk(1)
	key0 := getMsgKey(first.Q())
	r := new(dns.Msg)
	r.SetReply(first.Q())
	r.Answer = []dns.RR{&dns.A{Hdr: dns.RR_Header{Name: "a.", Rrtype: dns.TypeA, Class: dns.ClassINET, Ttl: 60}, A: []byte{192, 0, 2, 1}}}
	vrtAssume(saveRespToCache(key0, r, c.backend, 86400))
	it, exp, ok := c.backend.Get(key(key0))
	vrtAssume(ok)
	const e = 1000 * time.Second
	c.backend.Flush()
	it.storedTime, it.expirationTime = it.storedTime.Add(-e), it.expirationTime.Add(-e)
	c.backend.Store(key(key0), it, exp.Add(-e))

	n := 2 + vrtChoice(vrtParam("burst", 2))
	for i := 0; i < n; i++ {
		qc := mk(uint16(100 + i))
		vrtAssert("no error", c.Exec(context.Background(), qc, next) == nil)
		a := qc.R()
		vrtAssert("a stale hit is served at once", a != nil)
		if a != nil {
			vrtAssert("with the fixed stale TTL, the stored data and the query's own ID",
				vrtAnd(a.Id == uint16(100+i), len(a.Answer) == 1, a.Answer[0].Header().Ttl == 5, a.Answer[0].(*dns.A).A[3] == 1))
		}
	}
	vrtWaitQuiescent()
	vrtCover("refresh in flight during the burst", up.refreshes >= 1)
	vrtAssert("at most one background refresh per question is in flight", up.maxInFlight <= 1)
	vrtAssert("a refresh was started", up.refreshes >= 1)
	vrtAtomic(func() { up.release = true })
	vrtWaitQuiescent()
	// the refreshed entry is fresh again
	qc := mk(7)
	vrtAssert("no error", c.Exec(context.Background(), qc, next) == nil)
	a := qc.R()
	if up.bad == 0 {
		vrtAssert("after the refresh the new answer is served from cache", vrtAnd(a != nil, a != nil && a.Answer[0].(*dns.A).A[3] == 2, up.refreshes == 1))
	} else {
		vrtCover("refresh got a reply that must not be stored", true)
		// truncated, REFUSED and zero-TTL replies are never stored - by a refresh either: the stale entry stays
		vrtAssert("a reply that must not be stored does not replace the entry", vrtAnd(a != nil, a != nil && !a.Truncated && a.Rcode == dns.RcodeSuccess && len(a.Answer) == 1 && a.Answer[0].(*dns.A).A[3] == 1 && a.Answer[0].Header().Ttl == 5))
	}
}
