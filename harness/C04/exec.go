//go:build verif

package cache

import (
	"context"

	"github.com/IrineSistiana/mosdns/v5/pkg/query_context"
	"github.com/IrineSistiana/mosdns/v5/plugin/executable/sequence"
	"github.com/miekg/dns"
)

// vrtUpstream is the rest of the chain behind the cache: it answers the query
// it is given (echoing ID and question) with a symbolic rcode and one A record.
type vrtUpstream struct {
	calls int
	rcode int
	ttl   uint32
	trunc bool // the upstream's reply is truncated
}

func (u *vrtUpstream) Exec(ctx context.Context, qCtx *query_context.Context) error {
	u.calls++
	if qCtx.R() != nil {
		return nil // already answered (from cache)
	}
	r := new(dns.Msg)
	r.SetReply(qCtx.Q())
	r.Rcode = u.rcode
	r.Truncated = u.trunc
	if u.rcode == dns.RcodeSuccess {
		r.Answer = []dns.RR{&dns.A{Hdr: dns.RR_Header{Name: "a.", Rrtype: dns.TypeA, Class: dns.ClassINET, Ttl: u.ttl}, A: []byte{192, 0, 2, 1}}}
	}
	qCtx.SetResponse(r)
	return nil
}

func vrtExecQuery(nameLen int) *dns.Msg {
	q := new(dns.Msg)
	q.Id = vrtU16()
	q.RecursionDesired = true
	q.AuthenticatedData = vrtBool()
	q.CheckingDisabled = vrtBool()
	q.Question = []dns.Question{{Name: vrtString(nameLen), Qtype: vrtU16(), Qclass: vrtU16()}}
	return q
}

// vrtCtx creates the query context; a plugin in front of the cache may set the
// DO bit on the upstream-facing query (the client's own OPT never reaches the
// cache: NewContext swaps it for a fresh one, see DESIGN.md observations).
func vrtCtx(q *dns.Msg) (*query_context.Context, bool) {
	qCtx := query_context.NewContext(q)
	do := vrtBool()
	if do {
		qCtx.QOpt().SetDo()
	}
	return qCtx, do
}

// End to end through Cache.Exec: q1 is answered by the upstream and stored;
// q2 is served from cache only if it asks the same question with the same
// DNSSEC flags, and then carries q2's own ID and question.
func vrtHarness_C04_exec() {
	c := NewCache(&Args{Size: 1024}, Opts{})
	up := &vrtUpstream{ttl: 300, trunc: vrtChoice(2) == 1}
	switch vrtChoice(3) {
	case 1:
		up.rcode = dns.RcodeNameError
	case 2:
		up.rcode = dns.RcodeServerFailure
	}
	next := sequence.NewChainWalker([]*sequence.ChainNode{{E: up}}, nil)
	n := 1 + vrtChoice(vrtParam("max_name", 2))
	q1, q2 := vrtExecQuery(n), vrtExecQuery(n)
	a, b := q1.Question[0], q2.Question[0]
	ad1, cd1, ad2, cd2, id2 := q1.AuthenticatedData, q1.CheckingDisabled, q2.AuthenticatedData, q2.CheckingDisabled, q2.Id

	ctx1, do1 := vrtCtx(q1)
	vrtAssert("no error", c.Exec(context.Background(), ctx1, next) == nil)
	vrtAssert("first query reaches the upstream once", up.calls == 1)

	ctx2, do2 := vrtCtx(q2)
	hitBefore := up.calls
	resolved := false
	probe := &vrtProbe{}
	next2 := sequence.NewChainWalker([]*sequence.ChainNode{{E: probe}, {E: up}}, nil)
	vrtAssert("no error", c.Exec(context.Background(), ctx2, next2) == nil)
	_ = hitBefore
	resolved = probe.sawResponse
	same := vrtAnd(vrtStrEq(a.Name, b.Name), a.Qtype == b.Qtype, a.Qclass == b.Qclass, ad1 == ad2, cd1 == cd2, do1 == do2)
	vrtCover("second query served from cache", resolved)
	vrtCover("second query not served from cache", !resolved)
	vrtAssert("a cached answer is only served to the same question with the same AD/CD/DO flags", vrtImplies(resolved, same))
	vrtAssert("a truncated reply is never stored: the next query goes upstream again", vrtImplies(up.trunc, !resolved))
	r := ctx2.R()
	vrtAssert("an answer exists", r != nil)
	if resolved {
		vrtAssert("a hit carries the ID of the query it answers", r.Id == id2)
		vrtAssert("a hit carries the question of the query it answers", vrtAnd(len(r.Question) == 1,
			vrtStrEq(r.Question[0].Name, b.Name), r.Question[0].Qtype == b.Qtype, r.Question[0].Qclass == b.Qclass))
	}
}

// vrtProbe sits right behind the cache and records whether the cache already answered.
type vrtProbe struct{ sawResponse bool }

func (p *vrtProbe) Exec(ctx context.Context, qCtx *query_context.Context) error {
	p.sawResponse = qCtx.R() != nil
	return nil
}
