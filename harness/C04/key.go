//go:build verif

package cache

import "github.com/miekg/dns"

// vrtQueryC04 builds an arbitrary query message: name of symbolic content and
// forked length 1..maxName, any type, any class, AD/CD, optional OPT with any
// ttl field (DO bit) alone or next to another additional record, QR, opcode, 0..2 questions.
func vrtQueryC04(maxName int) (*dns.Msg, int) {
	q := new(dns.Msg)
	q.Id = vrtU16()
	q.Response = vrtBool()
	q.Opcode = int(vrtU8() & 0xf)
	q.AuthenticatedData = vrtBool()
	q.CheckingDisabled = vrtBool()
	nq := vrtChoice(3)
	n := 1 + vrtChoice(maxName)
	for i := 0; i < nq; i++ {
		q.Question = append(q.Question, dns.Question{Name: vrtString(n), Qtype: vrtU16(), Qclass: vrtU16()})
	}
	if vrtChoice(2) == 1 {
		o := new(dns.OPT)
		o.Hdr.Name = "."
		o.Hdr.Rrtype = dns.TypeOPT
		o.Hdr.Class = vrtU16()
		o.Hdr.Ttl = vrtU32()
		// the OPT record alone, after another additional record, or followed by one (e.g. TSIG, which must come last)
		other := &dns.A{Hdr: dns.RR_Header{Name: "x.", Rrtype: dns.TypeA, Class: dns.ClassINET, Ttl: vrtU32()}, A: []byte{192, 0, 2, 1}}
		switch vrtChoice(3) {
		case 0:
			q.Extra = append(q.Extra, o)
		case 1:
			q.Extra = append(q.Extra, other, o)
		default:
			q.Extra = append(q.Extra, o, other)
		}
	}
	return q, nq
}

func vrtDoBit(q *dns.Msg) bool {
	if o := q.IsEdns0(); o != nil {
		return o.Hdr.Ttl&(1<<15) != 0
	}
	return false
}

// C04 (a)+(b): key(q1) == key(q2) != "" implies same name/type/class/AD/CD/DO;
// key == "" iff the query bypasses the cache.
func vrtHarness_C04_keyInjective() {
	maxName := vrtParam("max_name", 6)
	q1, n1 := vrtQueryC04(maxName)
	q2, n2 := vrtQueryC04(maxName)
	k1, k2 := getMsgKey(q1), getMsgKey(q2)

	bypass1 := vrtOr(q1.Response, q1.Opcode != dns.OpcodeQuery, n1 != 1)
	vrtAssert("key empty iff query bypasses the cache", (k1 == "") == bypass1)
	if n1 != 1 || n2 != 1 {
		return
	}
	vrtCover("both cacheable and keys equal", vrtAnd(k1 != "", k2 != "", k1 == k2))
	vrtCover("both cacheable and keys differ", vrtAnd(k1 != "", k2 != "", k1 != k2))
	if vrtAnd(k1 != "", k2 != "", vrtStrEq(k1, k2)) {
		a, b := q1.Question[0], q2.Question[0]
		vrtAssert("equal keys imply equal question name", vrtStrEq(a.Name, b.Name))
		vrtAssert("equal keys imply equal question type", a.Qtype == b.Qtype)
		vrtAssert("equal keys imply equal question class", a.Qclass == b.Qclass)
		vrtAssert("equal keys imply equal AD/CD/DO flags", vrtAnd(
			q1.AuthenticatedData == q2.AuthenticatedData,
			q1.CheckingDisabled == q2.CheckingDisabled,
			vrtDoBit(q1) == vrtDoBit(q2)))
	}
}

// Long names: the presentation form of a name can exceed 255 bytes (escaped octets take four
// bytes).  Keys of two queries that differ only in their (equally long) names must differ.
func vrtHarness_C04_longNames() {
	lens := []int{254, 255, 256, 257, 300, 511, 512}
	n := lens[vrtChoice(len(lens))]
	q1, q2 := new(dns.Msg), new(dns.Msg)
	q1.Question = []dns.Question{{Name: vrtString(n), Qtype: dns.TypeA, Qclass: dns.ClassINET}}
	q2.Question = []dns.Question{{Name: vrtString(n), Qtype: dns.TypeA, Qclass: dns.ClassINET}}
	k1, k2 := getMsgKey(q1), getMsgKey(q2)
	vrtCover("long names compared", true)
	vrtAssert("both cacheable", vrtAnd(k1 != "", k2 != ""))
	vrtAssert("equal keys imply equal names, however long the names are", vrtImplies(vrtStrEq(k1, k2), vrtStrEq(q1.Question[0].Name, q2.Question[0].Name)))
	// and names of different length never share a key
	q3 := new(dns.Msg)
	q3.Question = []dns.Question{{Name: vrtString(n + 256), Qtype: dns.TypeA, Qclass: dns.ClassINET}}
	vrtAssert("names whose lengths differ by 256 do not share a key", !vrtStrEq(getMsgKey(q3), k1))
}
