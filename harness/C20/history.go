//go:build verif

package fallback

import (
	"context"
	"time"

	"github.com/IrineSistiana/mosdns/v5/pkg/query_context"
	"github.com/miekg/dns"
	"go.uber.org/zap"
)

// workers of the second kind: they answer with a message of the call they were started for
type vrtCallExec struct {
	held    bool
	release *bool
	ids     *[]uint16 // the answer IDs this worker hands out, one per call
	n       int
}

func (e *vrtCallExec) Exec(ctx context.Context, qCtx *query_context.Context) error {
	var id uint16
	vrtAtomic(func() { id = (*e.ids)[e.n]; e.n++ })
	if e.held && id < 200 { // only in the first call
		vrtAwait(func() bool { return *e.release }, func() {})
	}
	m := new(dns.Msg)
	m.Id, m.Response = id, true
	qCtx.SetResponse(m)
	return nil
}

// Two calls one after the other through the same plugin.  In the first the primary is slower
// than everything else and finishes only after the call has returned with the secondary's
// answer; then the second call runs.  Each call returns an answer produced for THAT call:
// nothing a late worker of an earlier call leaves behind reaches a later one.
func vrtHarness_C20_history() {
	release := false
	pIDs, sIDs := []uint16{101, 201}, []uint16{102, 202}
	p := &vrtCallExec{held: true, release: &release, ids: &pIDs}
	s := &vrtCallExec{release: &release, ids: &sIDs}
	f := &fallback{logger: zap.NewNop(), primary: p, secondary: s, fastFallbackDuration: 50 * time.Millisecond, alwaysStandby: vrtChoice(2) == 1}
	mk := func(id uint16) *query_context.Context {
		q := new(dns.Msg)
		q.Id = id
		q.Question = []dns.Question{{Name: "a.", Qtype: dns.TypeA, Qclass: dns.ClassINET}}
		return query_context.NewContext(q)
	}
	c1 := mk(1)
	err1 := f.doFallback(context.Background(), c1)
	vrtAssert("first call: the secondary's answer, since the primary is slower than the threshold", vrtAnd(err1 == nil, c1.R() != nil, c1.R() != nil && c1.R().Id == 102))
	vrtAtomic(func() { release = true }) // the slow primary of the first call finishes now
	vrtWaitQuiescent()
	c2 := mk(2)
	err2 := f.doFallback(context.Background(), c2)
	vrtCover("second call returned", true)
	vrtAssert("second call: an answer produced for this call", vrtAnd(err2 == nil, c2.R() != nil, c2.R() != nil && vrtOr(c2.R().Id == 201, c2.R().Id == 202)))
	vrtAssert("the first call's result is what it was", c1.R().Id == 102)
	vrtWaitQuiescent()
}
