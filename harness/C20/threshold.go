//go:build verif

package fallback

import (
	"context"
	"time"

	"github.com/IrineSistiana/mosdns/v5/pkg/query_context"
	"github.com/miekg/dns"
	"go.uber.org/zap"
)

// A worker that answers after a given time, or only once the harness lets it.
type vrtTimedExec struct {
	after   time.Duration
	held    bool
	release *bool
	answer  *dns.Msg
	started bool
}

func (e *vrtTimedExec) Exec(ctx context.Context, qCtx *query_context.Context) error {
	vrtAtomic(func() { e.started = true })
	if e.held {
		vrtAwait(func() bool { return *e.release }, func() {})
	} else {
		<-time.After(e.after)
	}
	qCtx.SetResponse(e.answer)
	return nil
}

func vrtMsgID(id uint16) *dns.Msg {
	m := new(dns.Msg)
	m.Id, m.Response = id, true
	return m
}

// The threshold is counted from the start of the call (discrete-event time: computation
// takes no time, timers fire on time and in deadline order).  Threshold 400 ms; the
// secondary needs 200..300 ms; the primary either answers within the threshold (100..300 ms)
// or is slower than anything else in the scenario (held until the call has returned).
//   primary in time              -> its answer, when it arrives;
//   primary slow, always_standby -> the finished secondary's answer, at the threshold;
//   primary slow, no standby     -> the secondary is started at the threshold, its answer when it arrives.
func vrtHarness_C20_threshold() {
	const T = 400 * time.Millisecond
	const slack = 100 * time.Millisecond // native scheduling jitter; symbolically the instants are exact
	release := false
	ds := time.Duration(200+vrtBelow(101)) * time.Millisecond
	dp := time.Duration(100+vrtBelow(201)) * time.Millisecond
	slow := vrtChoice(2) == 1
	standby := vrtChoice(2) == 1
	p := &vrtTimedExec{after: dp, held: slow, release: &release, answer: vrtMsgID(1)}
	s := &vrtTimedExec{after: ds, release: &release, answer: vrtMsgID(2)}
	f := &fallback{logger: zap.NewNop(), primary: p, secondary: s, fastFallbackDuration: T, alwaysStandby: standby}
	q := new(dns.Msg)
	q.Id = 7
	q.Question = []dns.Question{{Name: "a.", Qtype: dns.TypeA, Qclass: dns.ClassINET}}
	qCtx := query_context.NewContext(q)
	t0 := time.Now()
	err := f.doFallback(context.Background(), qCtx)
	el := time.Since(t0)
	r := qCtx.R()
	vrtAtomic(func() { release = true })
	vrtAssert("an answer is returned", vrtAnd(err == nil, r != nil))
	// the slower worker finishes after the call has returned: it works on its own copy of the query context
	vrtWaitQuiescent()
	vrtAssert("the answer the caller was given is not replaced afterwards by a slower worker", qCtx.R() == r)
	switch {
	case !slow:
		vrtCover("primary within the threshold", true)
		vrtAssert("primary answered within the threshold: its answer is returned, when it arrives", vrtAnd(r == p.answer, el >= dp, el < dp+slack))
		if !standby {
			vrtAssert("secondary is not started while the primary is within the threshold", !s.started)
		}
	case standby:
		vrtCover("standby secondary released at the threshold", true)
		vrtAssert("primary slower than the threshold: the finished secondary's answer is returned at the threshold, counted from the start of the call",
			vrtAnd(r == s.answer, el >= T, el < T+slack))
	default:
		vrtCover("secondary started at the threshold", true)
		vrtAssert("primary slower than the threshold: the secondary is started at the threshold and its answer returned when it arrives",
			vrtAnd(r == s.answer, el >= T+ds, el < T+ds+slack))
	}
}
