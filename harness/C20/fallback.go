//go:build verif

package fallback

import (
	"context"
	"errors"
	"time"

	"github.com/IrineSistiana/mosdns/v5/pkg/query_context"
	"github.com/miekg/dns"
	"go.uber.org/zap"
)

var vrtErrExec = errors.New("vrt: executable failed")

// vrtExec is a harness executable: outcome 0 answer, 1 no answer, 2 error.
// It finishes at an arbitrary instant (a scheduling point on entry).
type vrtExec struct {
	outcome int
	answer  *dns.Msg
	started bool
	done    bool
}

func (e *vrtExec) Exec(ctx context.Context, qCtx *query_context.Context) error {
	vrtAtomic(func() { e.started = true })
	if e.outcome == 3 { // slow worker: does not finish before its own deadline
		<-ctx.Done()
		return ctx.Err()
	}
	var err error
	vrtAtomic(func() {
		switch e.outcome {
		case 0:
			qCtx.SetResponse(e.answer)
		case 2:
			err = vrtErrExec
		}
		e.done = true
	})
	return err
}

func vrtAnswer(id uint16) *dns.Msg {
	m := new(dns.Msg)
	m.Id = id
	m.Response = true
	return m
}

func vrtQuery() *dns.Msg {
	q := new(dns.Msg)
	q.Id = 7
	q.Question = []dns.Question{{Name: "a.", Qtype: dns.TypeA, Qclass: dns.ClassINET}}
	return q
}

// No threshold timer expiry, caller's context alive: the primary's answer wins
// whenever the primary produces one; the secondary is used only if the primary
// failed; ErrFailed iff both fail; without always_standby the secondary never starts
// unless the primary failed.
func vrtHarness_C20_noTimer() {
	p := &vrtExec{outcome: vrtChoice(3), answer: vrtAnswer(1)}
	s := &vrtExec{outcome: vrtChoice(3), answer: vrtAnswer(2)}
	f := &fallback{logger: zap.NewNop(), primary: p, secondary: s, fastFallbackDuration: time.Hour, alwaysStandby: vrtChoice(2) == 1}
	qCtx := query_context.NewContext(vrtQuery())
	err := f.doFallback(context.Background(), qCtx)
	r := qCtx.R()
	vrtCover("primary answered", vrtAnd(p.outcome == 0, err == nil))
	vrtCover("secondary used", vrtAnd(err == nil, r == s.answer))
	vrtCover("both failed", err != nil)
	if p.outcome == 0 {
		vrtAssert("primary answered within the threshold: its answer is returned", vrtAnd(err == nil, r == p.answer))
		if !f.alwaysStandby {
			vrtAssert("secondary is not started while the primary is within the threshold", !s.started)
		}
	} else if s.outcome == 0 {
		vrtAssert("primary failed: the secondary's answer is returned", vrtAnd(err == nil, r == s.answer))
	} else {
		vrtAssert("both failed: ErrFailed", vrtAnd(err == ErrFailed, r == nil))
	}
}

// The threshold timer and the workers' deadline timers may fire at any point,
// and the caller may cancel: the call always returns; a returned answer is one of
// the two workers' answers; ErrFailed only if both failed; without always_standby
// the secondary starts only after primary failure or the threshold timer.
func vrtHarness_C20_timers() {
	p := &vrtExec{outcome: vrtChoice(4), answer: vrtAnswer(1)}
	s := &vrtExec{outcome: vrtChoice(4), answer: vrtAnswer(2)}
	f := &fallback{logger: zap.NewNop(), primary: p, secondary: s, fastFallbackDuration: 500 * time.Millisecond, alwaysStandby: vrtChoice(2) == 1}
	qCtx := query_context.NewContext(vrtQuery())
	ctx, cancel := context.WithCancel(context.Background())
	cancelled := false
	if vrtChoice(2) == 1 {
		go func() {
			vrtAtomic(func() { cancelled = true })
			cancel()
			vrtFreezeTimers() // "the call ends when the caller's context ends": without any further timer event
		}()
	}
	err := f.doFallback(ctx, qCtx)
	r := qCtx.R()
	vrtCover("returned with an answer", err == nil)
	vrtCover("returned with an error", err != nil)
	if err == nil {
		vrtAssert("a returned answer is the primary's or the secondary's", vrtOr(vrtAnd(r == p.answer, p.outcome == 0), vrtAnd(r == s.answer, s.outcome == 0)))
	} else if err == ErrFailed {
		vrtAssert("ErrFailed only if both workers finished without an answer", vrtAnd(p.outcome != 0, s.outcome != 0))
	} else {
		vrtAssert("any other error is the context's", vrtAnd(cancelled, err == context.Canceled))
	}
	if vrtAnd(cancelled, p.outcome == 3, s.outcome == 3, vrtTimerFires() == 0) {
		vrtCover("cancelled while both workers are slow", true)
		vrtAssert("the call ends with the caller's context", err == context.Canceled)
	}
	cancel()
}
