//go:build verif

package upstream

import (
	"context"
	"time"

	"github.com/IrineSistiana/mosdns/v5/pkg/upstream/transport"
)

// A history of queries through one udpWithFallback: whatever happened to earlier queries
// (a fallback that was refused, failed mid-exchange or worked), every later truncated UDP
// reply is retried over TCP again and every complete one is returned as it is.
func vrtHarness_C17_history() {
	n := 2 + vrtChoice(vrtParam("max_queries", 2)-1)
	udp := &vrtConn{}
	var tcps []*vrtConn
	tcpDials := 0
	flags := make([][2]byte, n)
	modes := make([]int, n+1) // behaviour of the j-th TCP dial: 0 answers (and stays open), 1 refused, 2 EOF instead of a reply
	for i := range flags {
		flags[i] = [2]byte{vrtU8(), vrtU8()}
	}
	for j := range modes {
		modes[j] = vrtChoice(3)
	}
	u := &udpWithFallback{
		u: transport.NewPipelineTransport(transport.PipelineOpts{MaxConcurrentQueryWhileDialing: 4, DialContext: func(ctx context.Context) (transport.DnsConn, error) {
			return transport.NewDnsConn(transport.TraditionalDnsConnOpts{MaxConcurrentQuery: 4}, udp), nil
		}}),
		t: transport.NewReuseConnTransport(transport.ReuseConnOpts{DialContext: func(ctx context.Context) (transport.NetConn, error) {
			var c *vrtConn
			vrtAtomic(func() {
				mode := modes[tcpDials]
				tcpDials++
				if mode == 1 {
					return
				}
				c = &vrtConn{stream: true}
				tcps = append(tcps, c)
				go func() { // this connection's server
					vrtDaemon()
					for k := 0; k < n; k++ {
						k := k
						vrtAwait(func() bool { return len(c.frames) > k }, func() {
							if mode == 2 {
								c.eof = true
								return
							}
							r := append([]byte(nil), c.frames[k]...)
							r[2], r[3] = 0x80, 0x00 // QR, no TC
							r[13] ^= 0xff           // marks the TCP answer
							c.serverSend(r)
						})
						if mode == 2 {
							return
						}
					}
				}()
			})
			if c == nil {
				return nil, vrtErrReset
			}
			return c, nil
		}}),
	}
	go func() { // UDP server: echoes query k with arbitrary flag bytes
		vrtDaemon()
		for k := 0; k < n; k++ {
			k := k
			vrtAwait(func() bool { return len(udp.frames) > k }, func() {
				r := append([]byte(nil), udp.frames[k]...)
				r[2], r[3] = flags[k][0], flags[k][1]
				udp.serverSend(r)
			})
		}
	}()
	ctx, cancel := context.WithTimeout(context.Background(), 2*time.Second)
	defer cancel()
	type held struct {
		r   *[]byte
		id  uint16
		tag uint16
	}
	var kept []held // replies the callers still hold
	defer func() {
		// every reply handed to a caller stays the reply to that caller's query while later queries run
		for i, h := range kept {
			vrtAssert("a reply a caller holds is not overwritten by later exchanges", vrtAnd(vrtWireID(*h.r) == h.id, (*h.r)[12] == byte(h.tag>>8)))
			for j := range kept {
				if i < j {
					vrtAssert("two callers never hold the same reply buffer", h.r != kept[j].r)
				}
			}
		}
	}()
	for i := 0; i < n; i++ {
		id := vrtU16()
		tag := uint16(0x1200 + i)
		q := vrtWire(id, tag)
		dialsBefore := tcpDials
		r, err := u.ExchangeContext(ctx, q)
		if err == nil && r != nil {
			kept = append(kept, held{r, id, tag})
		}
		onTCP := 0
		for _, c := range tcps {
			for _, f := range c.frames {
				if vrtWireTag(f) == tag {
					onTCP++
				}
			}
		}
		if flags[i][0]&0x02 != 0 {
			if i > 0 {
				vrtCover("truncated UDP reply after an earlier query", true)
			}
			if err == nil {
				vrtAssert("TC set: a successful call returns the TCP reply", vrtAnd(onTCP >= 1, vrtWireID(*r) == id, (*r)[13] == byte(tag)^0xff, (*r)[2] == 0x80))
			} else {
				// the fallback was attempted: the query went out over TCP or a TCP dial was refused for it
				vrtAssert("TC set: the query is retried over TCP, whatever happened to earlier fallbacks", vrtOr(onTCP >= 1, tcpDials > dialsBefore))
			}
		} else {
			vrtAssert("TC clear: no TCP transmission for this query", onTCP == 0)
			vrtAssert("TC clear: the UDP reply is returned as it is (ID restored)", vrtAnd(err == nil, len(*r) == 14,
				vrtWireID(*r) == id, (*r)[2] == flags[i][0], (*r)[3] == flags[i][1], vrtWireTag(*r) == tag))
		}
	}
}
