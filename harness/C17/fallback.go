//go:build verif

package upstream

import (
	"context"
	"time"

	"github.com/IrineSistiana/mosdns/v5/pkg/upstream/transport"
)

// udpWithFallback: the UDP reply carries arbitrary header flags; the TCP side
// answers, refuses the connection, or fails mid-exchange.
func vrtHarness_C17_tcFallback() {
	udp := &vrtConn{}
	tcp := &vrtConn{stream: true}
	tcpMode := vrtChoice(3) // 0 answers, 1 dial refused, 2 EOF instead of a reply
	tcpDials, udpDials := 0, 0
	flags := [2]byte{vrtU8(), vrtU8()}
	u := &udpWithFallback{
		u: transport.NewPipelineTransport(transport.PipelineOpts{MaxConcurrentQueryWhileDialing: 4, DialContext: func(ctx context.Context) (transport.DnsConn, error) {
			vrtAtomic(func() { udpDials++ })
			return transport.NewDnsConn(transport.TraditionalDnsConnOpts{MaxConcurrentQuery: 4}, udp), nil
		}}),
		t: transport.NewReuseConnTransport(transport.ReuseConnOpts{DialContext: func(ctx context.Context) (transport.NetConn, error) {
			vrtAtomic(func() { tcpDials++ })
			if tcpMode == 1 {
				return nil, vrtErrReset
			}
			return tcp, nil
		}}),
	}
	go func() { // UDP server: echoes the query with arbitrary flag bytes
		vrtDaemon()
		vrtAwait(func() bool { return len(udp.frames) > 0 }, func() {
			r := append([]byte(nil), udp.frames[0]...)
			r[2], r[3] = flags[0], flags[1]
			udp.serverSend(r)
		})
	}()
	go func() { // TCP server
		vrtDaemon()
		vrtAwait(func() bool { return len(tcp.frames) > 0 }, func() {
			if tcpMode == 2 {
				tcp.eof = true
				return
			}
			r := append([]byte(nil), tcp.frames[0]...)
			r[2], r[3] = 0x80, 0x00 // QR, no TC
			r[13] ^= 0xff           // marks the TCP answer
			tcp.serverSend(r)
		})
	}()
	ctx, cancel := context.WithTimeout(context.Background(), 400*time.Millisecond)
	defer cancel()
	id := vrtU16()
	q := vrtWire(id, 0x1234)
	q[2] = vrtU8() // query flags are arbitrary too
	r, err := u.ExchangeContext(ctx, q)
	tc := flags[0]&0x02 != 0
	if tc {
		vrtCover("truncated UDP reply", true)
		vrtAssert("TC set: the query is sent again over TCP", tcpDials >= 1)
		if tcpMode == 0 {
			vrtAssert("TC set: the same query bytes go out over TCP (caller's ID on the wire)", vrtAnd(len(tcp.frames) == 1, vrtBytesEq(tcp.frames[0], q)))
			vrtAssert("TC set: the caller gets the TCP reply", vrtAnd(err == nil, vrtWireID(*r) == id, (*r)[13] == 0x34^0xff, (*r)[2] == 0x80))
		} else {
			vrtAssert("TC set and TCP fails: the TCP failure is the outcome", err != nil)
		}
	} else {
		vrtCover("complete UDP reply", true)
		vrtAssert("TC clear: no TCP connection is opened", vrtAnd(tcpDials == 0, len(tcp.frames) == 0))
		vrtAssert("TC clear: the UDP reply is returned as it is (ID restored)", vrtAnd(err == nil, len(*r) == 14,
			vrtWireID(*r) == id, (*r)[2] == flags[0], (*r)[3] == flags[1], vrtWireTag(*r) == 0x1234))
	}
	vrtAssert("one UDP exchange", vrtAnd(udpDials == 1, len(udp.frames) == 1))
}

// msgTruncated tests exactly the TC bit (0x02 of the third header byte).
func vrtHarness_C17_tcBit() {
	// replies of every interesting size: a bare header, typical sizes and the sizes around the
	// 4095-byte receive buffer and the 64-KiB limit; the header bytes are arbitrary
	sizes := []int{12, 13, 512, 1232, 4094, 4095, 4096, 65535}
	b := make([]byte, sizes[vrtChoice(len(sizes))])
	copy(b, vrtBytes(12))
	vrtCover("tc", msgTruncated(b))
	vrtCover("not tc", !msgTruncated(b))
	vrtAssert("msgTruncated is the TC bit", msgTruncated(b) == (b[2]&0x02 != 0))
}
