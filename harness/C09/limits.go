//go:build verif

package transport

import (
	"context"
	"time"
)

// k callers hit one established pipelined connection with limit L while the
// server stays silent; then the server answers everything.
//  (a) the wire never carries more than L unanswered queries;
//  (d) a connection holding fewer than L unanswered queries admits another one: min(k, L) callers get through;
//  (b) no panic / counter underflow;
//  (c) afterwards (quiescent) exactly L reservations succeed, as on a fresh connection.
func vrtHarness_C09_tdc() {
	L := 1 + vrtChoice(vrtParam("max_limit", 3))
	k := 1 + vrtChoice(vrtParam("max_callers", 3))
	stream := vrtChoice(2) == 1
	conn := &vrtConn{stream: stream}
	dc := NewDnsConn(TraditionalDnsConnOpts{WithLengthHeader: stream, MaxConcurrentQuery: L}, conn)
	ctx, cancel := context.WithTimeout(context.Background(), 2*time.Second)
	defer cancel()

	refused, finished, failed := 0, 0, 0
	start := make(chan struct{}) // the callers reserve at the same moment (natively: released together)
	for i := 0; i < k; i++ {
		i := i
		go func() {
			<-start
			ex, _ := dc.ReserveNewQuery()
			if ex == nil {
				vrtAtomic(func() { refused++ })
				return
			}
			_, err := ex.ExchangeReserved(ctx, vrtWire(uint16(i), uint16(100+i)))
			vrtAtomic(func() {
				finished++
				if err != nil {
					failed++
				}
			})
		}()
	}
	vrtWaitQuiescent()
	close(start)
	vrtWaitQuiescent() // every caller is refused or waits for its reply
	admitted := len(conn.frames)
	want := k
	if L < k {
		want = L
	}
	vrtCover("limit reached", k >= L)
	vrtCover("below limit", k < L)
	vrtAssert("never more unanswered queries on the connection than its limit", admitted <= L)
	vrtAssert("a connection below its limit admits another query", admitted == want)
	vrtAssert("every caller was admitted or refused", admitted+refused == k)

	// the server answers everything that is outstanding
	vrtAtomic(func() {
		for _, f := range conn.frames {
			conn.serverSend(f)
		}
	})
	vrtWaitQuiescent()
	vrtAssert("admitted callers completed successfully", vrtAnd(finished == admitted, failed == 0))

	// capacity conservation on the quiescent connection
	var held []ReservedExchanger
	for i := 0; i < L; i++ {
		ex, closed := dc.ReserveNewQuery()
		vrtAssert("a quiescent connection admits as many queries as a fresh one", vrtAnd(ex != nil, !closed))
		if ex != nil {
			held = append(held, ex)
		}
	}
	ex, _ := dc.ReserveNewQuery()
	vrtAssert("and not more", ex == nil)
	for _, h := range held {
		h.WithdrawReserved()
	}
	for i := 0; i < L; i++ {
		ex, _ := dc.ReserveNewQuery()
		vrtAssert("withdrawn reservations return their capacity", ex != nil)
	}
}

// Queries queued while the connection is dialing: with queue limit L and an
// equal connection limit L, k callers arrive while the dial is held; then the
// dial succeeds and the server answers.  None of the first L callers may be
// refused or fail; caller L+1 makes the transport open another connection
// instead of exceeding the limit; each connection carries at most L unanswered queries.
func vrtHarness_C09_lazy() {
	L := 1 + vrtChoice(vrtParam("max_limit", 2))
	k := L + vrtChoice(2) // L or L+1 callers
	released := false
	var conns []*vrtConn
	dials := 0
	t := NewPipelineTransport(PipelineOpts{
		MaxConcurrentQueryWhileDialing: L,
		DialContext: func(ctx context.Context) (DnsConn, error) {
			var c *vrtConn
			vrtAtomic(func() { dials++ })
			vrtAwait(func() bool { return released }, func() {
				c = &vrtConn{stream: true}
				conns = append(conns, c)
			})
			return NewDnsConn(TraditionalDnsConnOpts{WithLengthHeader: true, MaxConcurrentQuery: L}, c), nil
		},
	})
	ctx, cancel := context.WithTimeout(context.Background(), 2*time.Second)
	defer cancel()
	finished, failed := 0, 0
	for i := 0; i < k; i++ {
		i := i
		go func() {
			r, err := t.ExchangeContext(ctx, vrtWire(uint16(i), uint16(100+i)))
			vrtAtomic(func() {
				finished++
				if vrtOr(err != nil, r == nil) {
					failed++
				}
			})
		}()
	}
	vrtWaitQuiescent() // all callers are queued on dialing connections
	wantDials := 1
	if k > L {
		wantDials = 2
	}
	vrtCover("second connection needed", k > L)
	vrtAssert("the transport dials another connection instead of exceeding the queue limit", dials == wantDials)
	vrtAtomic(func() { released = true })
	vrtWaitQuiescent() // dials finished, queries written, callers wait for replies
	total := 0
	for _, c := range conns {
		vrtAssert("never more unanswered queries on a connection than its limit", len(c.frames) <= L)
		total += len(c.frames)
	}
	vrtAssert("every query queued while dialing is sent once the dial succeeds", vrtAnd(total == k, finished == 0))
	vrtAtomic(func() {
		for _, c := range conns {
			for _, f := range c.frames {
				c.serverSend(f)
			}
		}
	})
	vrtWaitQuiescent()
	vrtAssert("all callers complete successfully", vrtAnd(finished == k, failed == 0))
}

// Capacity while dialing is not lost through cancellations: L callers queue on a
// dialing connection and give up (context cancelled) before the dial finishes; L new
// callers must then be admitted to the SAME dialing connection (no extra dial) and be
// served once the dial succeeds.
func vrtHarness_C09_lazyCancel() {
	L := 1 + vrtChoice(vrtParam("max_limit", 2))
	released := false
	var conn *vrtConn
	dials := 0
	t := NewPipelineTransport(PipelineOpts{
		MaxConcurrentQueryWhileDialing: L,
		DialContext: func(ctx context.Context) (DnsConn, error) {
			vrtAtomic(func() { dials++ })
			vrtAwait(func() bool { return released }, func() { conn = &vrtConn{stream: true} })
			return NewDnsConn(TraditionalDnsConnOpts{WithLengthHeader: true, MaxConcurrentQuery: L}, conn), nil
		},
	})
	ctxX, cancelX := context.WithCancel(context.Background())
	gaveUp := 0
	for i := 0; i < L; i++ {
		i := i
		go func() {
			_, err := t.ExchangeContext(ctxX, vrtWire(uint16(i), uint16(200+i)))
			vrtAtomic(func() {
				if err != nil {
					gaveUp++
				}
			})
		}()
	}
	vrtWaitQuiescent() // L callers are queued on the dialing connection
	cancelX()
	vrtWaitQuiescent()
	vrtAssert("cancelled callers return with an error", gaveUp == L)
	ctx, cancel := context.WithTimeout(context.Background(), 2*time.Second)
	defer cancel()
	finished, failed := 0, 0
	for i := 0; i < L; i++ {
		i := i
		go func() {
			r, err := t.ExchangeContext(ctx, vrtWire(uint16(i), uint16(100+i)))
			vrtAtomic(func() {
				finished++
				if vrtOr(err != nil, r == nil) {
					failed++
				}
			})
		}()
	}
	vrtWaitQuiescent()
	vrtCover("new callers queued after cancellations", true)
	vrtAssert("cancelled queries give their dialing-queue slots back: no extra connection is dialled", dials == 1)
	vrtAtomic(func() { released = true })
	vrtWaitQuiescent()
	vrtAssert("every new query is sent once the dial succeeds", vrtAnd(conn != nil, len(conn.frames) == L))
	vrtAtomic(func() {
		for _, f := range conn.frames {
			conn.serverSend(f)
		}
	})
	vrtWaitQuiescent()
	vrtAssert("all new callers complete successfully", vrtAnd(finished == L, failed == 0))
}
