//go:build verif

package transport

import (
	"context"
	"time"
)

// The non-pipelined transport: k callers arrive while the servers stay silent, any one
// of them may give up (context cancelled) after its query is on the wire; then one more
// caller arrives; then the servers answer everything, late replies included.
//  (a) no connection ever carries more than one unanswered query - the transport dials
//      another connection instead (a cancelled query stays unanswered on the wire);
//  (b) no panic, every caller that did not give up is answered with its own reply;
//  (c) capacity is not lost: after the late replies all connections are idle again and
//      as many further sequential queries as there are connections need no new dial.
func vrtHarness_C09_reuse() {
	var conns []*vrtConn
	release := false
	dials := 0
	t := NewReuseConnTransport(ReuseConnOpts{DialContext: func(ctx context.Context) (NetConn, error) {
		var c *vrtConn
		vrtAtomic(func() {
			dials++
			c = &vrtConn{stream: true}
			conns = append(conns, c)
			c.onWrite = func(f []byte) {
				// ghost: frames includes the one being written
				vrtAssert("a non-pipelined connection never carries more than one unanswered query", len(c.frames)-c.replied <= 1)
			}
			go func() { // this connection's server: answers in order, once released
				vrtDaemon()
				for i := 0; i < 8; i++ {
					i := i
					vrtAwait(func() bool { return release && len(c.frames) > i }, func() { c.serverSend(c.frames[i]) })
				}
			}()
		})
		return c, nil
	}})
	k := 1 + vrtChoice(vrtParam("max_callers", 2))
	quitter := vrtChoice(k + 1) // caller that gives up; k: nobody
	ctx, cancel := context.WithTimeout(context.Background(), 2*time.Second)
	defer cancel()
	ctxQ, cancelQ := context.WithCancel(ctx)
	defer cancelQ()
	okN, failN := 0, 0
	call := func(i int, cx context.Context) {
		r, err := t.ExchangeContext(cx, vrtWire(uint16(i), uint16(100+i)))
		vrtAtomic(func() {
			if err == nil {
				okN++
				vrtAssert("the answer is the caller's own", vrtAnd(len(*r) == 14, vrtWireTag(*r) == uint16(100+i)))
			} else {
				failN++
			}
		})
	}
	for i := 0; i < k; i++ {
		i := i
		cx := ctx
		if i == quitter {
			cx = ctxQ
		}
		go call(i, cx)
	}
	vrtWaitQuiescent() // every query is on the wire, on a connection of its own
	vrtAssert("each concurrent query has a connection of its own", vrtAnd(len(conns) == k, dials == k))
	if quitter < k {
		cancelQ()
		vrtWaitQuiescent()
		vrtCover("a caller gave up after sending", true)
		vrtAssert("the caller that gave up returned", failN == 1)
	}
	// one more caller while everything sent so far is still unanswered
	go call(k, ctx)
	vrtWaitQuiescent()
	vrtAssert("the transport dials instead of sharing a busy connection", vrtAnd(len(conns) == k+1, dials == k+1))
	vrtAtomic(func() { release = true })
	vrtWaitQuiescent()
	want := k + 1
	if quitter < k {
		want = k
	}
	vrtAssert("every caller that did not give up is answered", vrtAnd(okN == want, okN+failN == k+1))
	// capacity: all k+1 connections are idle again (the late reply of the abandoned query
	// returned its connection to the pool): k+1 sequential queries need no new dial
	before := dials
	for i := 0; i <= k; i++ {
		call(10+i, ctx)
	}
	vrtCover("pool reused", true)
	vrtAssert("a live connection admits a new query after its query completed, failed or was abandoned", vrtAnd(dials == before, okN == want+k+1))
}

// A caller gives up while its connection is still being dialled; the dial then succeeds.
// The new connection carries no query: it is as good as a fresh idle one, so the next query
// uses it instead of dialling again (capacity is not lost through cancelled callers).
func vrtHarness_C09_reuseDialCancel() {
	var conns []*vrtConn
	released := false
	dials := 0
	t := NewReuseConnTransport(ReuseConnOpts{DialContext: func(ctx context.Context) (NetConn, error) {
		first := false
		vrtAtomic(func() { dials++; first = dials == 1 })
		if first {
			vrtAwait(func() bool { return released }, func() {})
		}
		var c *vrtConn
		vrtAtomic(func() {
			c = &vrtConn{stream: true}
			conns = append(conns, c)
			go func() {
				vrtDaemon()
				for i := 0; i < 4; i++ {
					i := i
					vrtAwait(func() bool { return len(c.frames) > i }, func() { c.serverSend(c.frames[i]) })
				}
			}()
		})
		return c, nil
	}})
	ctxX, cancelX := context.WithCancel(context.Background())
	xDone := make(chan error, 1)
	go func() {
		_, err := t.ExchangeContext(ctxX, vrtWire(1, 100))
		xDone <- err
	}()
	vrtWaitQuiescent() // the caller waits for its dial
	vrtAssume(dials == 1)
	cancelX()
	vrtAssert("the caller that gave up returned with an error", <-xDone != nil)
	vrtAtomic(func() { released = true })
	vrtWaitQuiescent() // the dial has completed: one live connection that carries no query
	vrtCover("dial completed after its caller had gone", len(conns) == 1)
	ctx, cancel := context.WithTimeout(context.Background(), 2*time.Second)
	defer cancel()
	r, err := t.ExchangeContext(ctx, vrtWire(2, 101))
	vrtAssert("the next query is answered", vrtAnd(err == nil, err == nil && vrtWireTag(*r) == 101))
	vrtAssert("on the connection that had been dialled: a live connection without queries admits one (no second dial)", dials == 1)
	for _, c := range conns {
		vrtAssert("a non-pipelined connection never carries more than one unanswered query", len(c.frames)-c.replied <= 1)
	}
}
