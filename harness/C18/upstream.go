//go:build verif

package upstream

import (
	"context"
	"crypto/tls"
	"errors"
	"io"
	"net"
	"strconv"
	"sync"
	"time"
)

// ---- observation points -------------------------------------------------------------------
// symbolic run: net.Dialer.DialContext, tls.Client, tls.Conn.HandshakeContext/Close are
// redirected (spec.json) to the hooks below, which record what the code asks for.
// native run: a local SOCKS5 proxy (opt.Socks5) records the CONNECT target and the TLS
// server name of the ClientHello that follows.

var (
	vrtObsMu      sync.Mutex
	vrtDialNet    string
	vrtDialAddr   string
	vrtDials      int
	vrtSNI        string
	vrtSawHello   bool
	vrtErrRefused = errors.New("vrt: connection refused by the harness")
)

type vrtNetConn struct{}

func (vrtNetConn) Read(p []byte) (int, error)         { return 0, io.EOF }
func (vrtNetConn) Write(p []byte) (int, error)        { return 0, vrtErrRefused }
func (vrtNetConn) Close() error                       { return nil }
func (vrtNetConn) LocalAddr() net.Addr                { return nil }
func (vrtNetConn) RemoteAddr() net.Addr               { return nil }
func (vrtNetConn) SetDeadline(t time.Time) error      { return nil }
func (vrtNetConn) SetReadDeadline(t time.Time) error  { return nil }
func (vrtNetConn) SetWriteDeadline(t time.Time) error { return nil }

func vrtDialContext(d *net.Dialer, ctx context.Context, network, address string) (net.Conn, error) {
	vrtDials++
	vrtDialNet, vrtDialAddr = network, address
	return vrtNetConn{}, nil
}

func vrtTLSClient(conn net.Conn, config *tls.Config) *tls.Conn {
	vrtSNI, vrtSawHello = config.ServerName, true
	return new(tls.Conn)
}

func vrtTLSHandshake(c *tls.Conn, ctx context.Context) error { return vrtErrRefused }
func vrtTLSClose(c *tls.Conn) error                          { return nil }

// native SOCKS5 proxy: accepts one CONNECT, records its target, answers success, then reads a
// TLS ClientHello (if any) to record the server name.
func vrtStartSocks() (addr string, stop func()) {
	ln, err := net.Listen("tcp", "127.0.0.1:0")
	if err != nil {
		panic(err)
	}
	go func() {
		for {
			c, err := ln.Accept()
			if err != nil {
				return
			}
			go vrtServeSocks(c)
		}
	}()
	return ln.Addr().String(), func() { ln.Close() }
}

func vrtServeSocks(c net.Conn) {
	defer c.Close()
	c.SetDeadline(time.Now().Add(2 * time.Second))
	hdr := make([]byte, 2)
	if _, err := io.ReadFull(c, hdr); err != nil {
		return
	}
	io.ReadFull(c, make([]byte, int(hdr[1])))
	c.Write([]byte{5, 0})
	req := make([]byte, 4)
	if _, err := io.ReadFull(c, req); err != nil {
		return
	}
	var host string
	switch req[3] {
	case 1:
		b := make([]byte, 4)
		io.ReadFull(c, b)
		host = net.IP(b).String()
	case 4:
		b := make([]byte, 16)
		io.ReadFull(c, b)
		host = net.IP(b).String()
	case 3:
		l := make([]byte, 1)
		io.ReadFull(c, l)
		b := make([]byte, int(l[0]))
		io.ReadFull(c, b)
		host = string(b)
	}
	pb := make([]byte, 2)
	io.ReadFull(c, pb)
	port := int(pb[0])<<8 | int(pb[1])
	vrtObsMu.Lock()
	vrtDials++
	vrtDialNet, vrtDialAddr = "tcp", net.JoinHostPort(host, strconv.Itoa(port))
	vrtObsMu.Unlock()
	c.Write([]byte{5, 0, 0, 1, 0, 0, 0, 0, 0, 0})
	srv := tls.Server(c, &tls.Config{GetConfigForClient: func(chi *tls.ClientHelloInfo) (*tls.Config, error) {
		vrtObsMu.Lock()
		vrtSNI, vrtSawHello = chi.ServerName, true
		vrtObsMu.Unlock()
		return nil, vrtErrRefused
	}})
	srv.Handshake()
}

type vrtAddrCase struct {
	scheme   string // "", udp, tcp, tcp+pipeline, tls, tls+pipeline
	host     string // as written in the URL (brackets for IPv6)
	port     string // "" or digits
	dialAddr string
	// expectation
	reject   bool
	wantHost string
	wantPort string
	wantSNI  string
}

func vrtCases() []vrtAddrCase {
	var cs []vrtAddrCase
	def := map[string]string{"": "53", "udp": "53", "tcp": "53", "tcp+pipeline": "53", "tls": "853", "tls+pipeline": "853"}
	hosts := []struct{ url, bare string; ip bool }{
		{"1.2.3.4", "1.2.3.4", true}, {"[2001:db8::1]", "2001:db8::1", true}, {"[::1]", "::1", true},
		{"[2001:db8::1:53]", "2001:db8::1:53", true}, {"dns.example", "dns.example", false},
	}
	dials := []struct{ s, host, port string; ip bool }{
		{"", "", "", false}, {"9.9.9.9", "9.9.9.9", "", true}, {"9.9.9.9:99", "9.9.9.9", "99", true},
		{"[2001:db8::9]:99", "2001:db8::9", "99", true}, {"2001:db8::9", "2001:db8::9", "", true}, {"ns.example", "ns.example", "", false},
	}
	for _, sc := range []string{"", "udp", "tcp", "tcp+pipeline", "tls", "tls+pipeline"} {
		for _, h := range hosts {
			for _, p := range []string{"", "5353", "65535"} {
				for _, d := range dials {
					c := vrtAddrCase{scheme: sc, host: h.url, port: p, dialAddr: d.s}
					c.wantHost, c.wantPort, c.wantSNI = h.bare, p, h.bare
					ip := h.ip
					if d.s != "" {
						c.wantHost, ip = d.host, d.ip
						c.wantPort = d.port
					}
					if c.wantPort == "" {
						c.wantPort = def[sc]
					}
					isTLS := sc == "tls" || sc == "tls+pipeline"
					c.reject = !ip && !isTLS // plain udp/tcp need an IP address to dial
					cs = append(cs, c)
				}
			}
		}
	}
	return cs
}

func vrtHarness_C18_upstream() {
	cs := vrtCases()
	var c vrtAddrCase
	if vrtSymbolic() {
		c = cs[vrtChoice(len(cs))]
	} else {
		c = cs[vrtChoiceNative(len(cs))] // native replay sweeps the configurations over its repetitions
	}
	addr := c.host
	if c.port != "" {
		addr += ":" + c.port
	}
	if c.scheme != "" {
		addr = c.scheme + "://" + addr
	}
	opt := Opt{DialAddr: c.dialAddr}
	native := !vrtSymbolic()
	isUDP := c.scheme == "" || c.scheme == "udp"
	if native {
		if isUDP {
			return // datagram sockets cannot be observed through the proxy
		}
		var stop func()
		opt.Socks5, stop = vrtStartSocks()
		defer stop()
		vrtObsMu.Lock()
		vrtDials, vrtDialAddr, vrtSNI, vrtSawHello = 0, "", "", false
		vrtObsMu.Unlock()
	}
	u, err := NewUpstream(addr, opt)
	if c.reject && !native { // (through a proxy a host name is a legitimate target)
		vrtCover("address that cannot be honoured is rejected", err != nil)
		vrtAssert("an address that cannot be dialled is rejected when the upstream is created", err != nil)
		return
	}
	if err != nil {
		vrtAssert("an accepted address form is not rejected", c.reject)
		return
	}
	ctx, cancel := context.WithTimeout(context.Background(), 800*time.Millisecond)
	defer cancel()
	q := make([]byte, 14)
	u.ExchangeContext(ctx, q) // fails: the harness refuses the connection after recording it
	u.Close()
	vrtObsMu.Lock()
	dials, dialAddr, sni, hello := vrtDials, vrtDialAddr, vrtSNI, vrtSawHello
	vrtObsMu.Unlock()
	vrtCover("connection attempt observed", dials > 0)
	vrtAssert("a connection is attempted", dials > 0)
	want := net.JoinHostPort(c.wantHost, c.wantPort)
	vrtAssert("connections are opened to exactly the host and port the user wrote", dialAddr == want)
	if c.scheme == "tls" || c.scheme == "tls+pipeline" {
		vrtCover("TLS server name observed", hello)
		if hello && !(native && net.ParseIP(c.wantSNI) != nil) { // Go's TLS client sends no SNI for IP literals
			vrtAssert("the TLS server name defaults to the URL host", sni == c.wantSNI)
		}
	}
}
