//go:build verif

package upstream

import (
	"context"
	"crypto/tls"
	"net"
	"net/netip"
	"strconv"
	"sync"
	"time"

	"github.com/IrineSistiana/mosdns/v5/pkg/upstream/bootstrap"
	"github.com/miekg/dns"
)

// symbolic run: the bootstrap query itself (UDP to the bootstrap server) is replaced by its
// contract - the name resolves to 192.0.2.9 - through a redirect of (*Bootstrap).resolve.
func vrtBootstrapResolve(sp *bootstrap.Bootstrap, ctx context.Context, qt uint16) (netip.Addr, uint32, error) {
	return netip.AddrFrom4([4]byte{192, 0, 2, 9}), 60, nil
}

// native run: a loopback DNS server that maps every name to 127.0.0.1 and TCP listeners that
// record which of them was connected to.
func vrtStartFakeDNS() (addr string, stop func()) {
	pc, err := net.ListenPacket("udp", "127.0.0.1:0")
	if err != nil {
		panic(err)
	}
	go func() {
		buf := make([]byte, 1500)
		for {
			n, from, err := pc.ReadFrom(buf)
			if err != nil {
				return
			}
			q := new(dns.Msg)
			if q.Unpack(buf[:n]) != nil || len(q.Question) != 1 {
				continue
			}
			r := new(dns.Msg)
			r.SetReply(q)
			if q.Question[0].Qtype == dns.TypeA {
				r.Answer = append(r.Answer, &dns.A{Hdr: dns.RR_Header{Name: q.Question[0].Name, Rrtype: dns.TypeA, Class: dns.ClassINET, Ttl: 60}, A: net.IPv4(127, 0, 0, 1)})
			}
			if b, err := r.Pack(); err == nil {
				pc.WriteTo(b, from)
			}
		}
	}()
	return pc.LocalAddr().String(), func() { pc.Close() }
}

type vrtListener struct {
	ln   net.Listener
	mu   sync.Mutex
	hits int
	sni  string // server name of the last ClientHello seen
}

func vrtListen() *vrtListener {
	ln, err := net.Listen("tcp", "127.0.0.1:0")
	if err != nil {
		panic(err)
	}
	l := &vrtListener{ln: ln}
	go func() {
		for {
			c, err := ln.Accept()
			if err != nil {
				return
			}
			l.mu.Lock()
			l.hits++
			l.mu.Unlock()
			c.SetDeadline(time.Now().Add(time.Second))
			tls.Server(c, &tls.Config{GetConfigForClient: func(chi *tls.ClientHelloInfo) (*tls.Config, error) {
				l.mu.Lock()
				l.sni = chi.ServerName
				l.mu.Unlock()
				return nil, vrtErrRefused
			}}).Handshake()
			c.Close()
		}
	}()
	return l
}

func (l *vrtListener) port() string { return strconv.Itoa(l.ln.Addr().(*net.TCPAddr).Port) }
func (l *vrtListener) count() int   { l.mu.Lock(); defer l.mu.Unlock(); return l.hits }
func (l *vrtListener) name() string { l.mu.Lock(); defer l.mu.Unlock(); return l.sni }

// Two upstreams whose hosts are names, resolved through a bootstrap server: each connects to
// the resolved address and to ITS OWN port, whatever the other upstream's host and port are
// and whichever of them is used first.
func vrtHarness_C18_bootstrap() {
	ports := []string{"", "8853", "443"}
	schemes := []string{"tls", "tls+pipeline"}
	hosts := []string{"dns.example", "other.example"}
	type cfg struct{ scheme, host, port, want string }
	mk := func(h int) cfg {
		c := cfg{scheme: schemes[vrtChoice(2)], host: hosts[h], port: ports[vrtChoice(3)]}
		c.want = c.port
		if c.want == "" {
			c.want = "853"
		}
		return c
	}
	a, b := mk(0), mk(vrtChoice(2))
	opt := Opt{Bootstrap: "192.0.2.53", BootstrapVer: []int{0, 4}[vrtChoice(2)]}
	if vrtChoice(2) == 1 {
		opt.TLSConfig = &tls.Config{InsecureSkipVerify: true} // one TLS configuration shared by both upstreams
		vrtCover("shared TLS configuration", true)
	}
	resolved := "192.0.2.9"
	var la, lb *vrtListener
	if !vrtSymbolic() {
		// real sockets: explicit ports of two loopback listeners stand for the configured ports
		dnsAddr, stop := vrtStartFakeDNS()
		defer stop()
		la, lb = vrtListen(), vrtListen()
		defer la.ln.Close()
		defer lb.ln.Close()
		a.port, a.want, b.port, b.want = la.port(), la.port(), lb.port(), lb.port()
		opt.Bootstrap, resolved = dnsAddr, "127.0.0.1"
	}
	url := func(c cfg) string {
		s := c.scheme + "://" + c.host
		if c.port != "" {
			s += ":" + c.port
		}
		return s
	}
	ua, err := NewUpstream(url(a), opt)
	vrtAssert("a host name with a bootstrap server is accepted", err == nil)
	ub, err2 := NewUpstream(url(b), opt)
	vrtAssert("a second upstream is accepted", err2 == nil)
	if err != nil || err2 != nil {
		return
	}
	first := vrtChoice(2) // which upstream is used first
	var sniSeen string
	use := func(u Upstream) string {
		vrtObsMu.Lock()
		vrtDials, vrtDialAddr, vrtSNI = 0, "", ""
		vrtObsMu.Unlock()
		ctx, cancel := context.WithTimeout(context.Background(), 1500*time.Millisecond)
		defer cancel()
		u.ExchangeContext(ctx, make([]byte, 14)) // fails: the connection is refused / closed after being recorded
		vrtObsMu.Lock()
		defer vrtObsMu.Unlock()
		sniSeen = vrtSNI
		return vrtDialAddr
	}
	var da, db, sa, sb string
	if first == 0 {
		da = use(ua)
		sa = sniSeen
		db = use(ub)
		sb = sniSeen
	} else {
		db = use(ub)
		sb = sniSeen
		da = use(ua)
		sa = sniSeen
	}
	ua.Close()
	ub.Close()
	vrtCover("two bootstrapped upstreams used", true)
	if vrtSymbolic() {
		vrtCover("same host, different ports", vrtAnd(a.host == b.host, a.want != b.want))
		vrtAssert("the first upstream connects to the resolved address and its own port", da == net.JoinHostPort(resolved, a.want))
		vrtAssert("the second upstream connects to the resolved address and its own port", db == net.JoinHostPort(resolved, b.want))
		vrtAssert("each upstream's TLS server name is its own URL host", vrtAnd(sa == a.host, sb == b.host))
	} else {
		time.Sleep(50 * time.Millisecond)
		vrtAssert("the first upstream connects to the resolved address and its own port", la.count() >= 1)
		vrtAssert("the second upstream connects to the resolved address and its own port", lb.count() >= 1)
		vrtAssert("each upstream's TLS server name is its own URL host", vrtAnd(la.name() == a.host, lb.name() == b.host))
	}
}
