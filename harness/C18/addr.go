//go:build verif

package upstream

// vrtHostChars assumes s consists of characters that may appear in a host
// (letters, digits, '.', '-', ':' for IPv6 text); no brackets, no slash.
func vrtHostChars(s string, allowColon bool) {
	for i := 0; i < len(s); i++ {
		c := s[i]
		ok := vrtOr(c >= 'a' && c <= 'f', c >= '0' && c <= '9', c == '.', c == '-', vrtAnd(allowColon, c == ':'))
		vrtAssume(ok)
	}
}

func vrtCountColon(s string) int {
	n := 0
	for i := 0; i < len(s); i++ {
		if s[i] == ':' {
			n++
		}
	}
	return n
}

// tryTrimIpv6Brackets: "[x]" -> "x" exactly; anything else unchanged.
func vrtHarness_C18_brackets() {
	n := vrtChoice(vrtParam("max_host", 6) + 1)
	inner := vrtString(n)
	vrtHostChars(inner, true)
	got := tryTrimIpv6Brackets("[" + inner + "]")
	vrtCover("bracketed host trimmed", true)
	vrtAssert("brackets removed and nothing else", vrtStrEq(got, inner))
	plain := vrtString(n)
	vrtHostChars(plain, true)
	vrtAssert("host without brackets unchanged", vrtStrEq(tryTrimIpv6Brackets(plain), plain))
}

// parseDialAddr / trySplitHostPort / tryRemovePort on "host", "host:port",
// "[v6]:port" and bare v6 text: host and port are exactly what was written.
func vrtHarness_C18_hostport() {
	maxHost := vrtParam("max_host", 5)
	defPort := vrtU16()
	vrtAssume(defPort != 0)
	form := vrtChoice(4)
	n := 1 + vrtChoice(maxHost)
	host := vrtString(n)
	ps, port := vrtPort()
	switch form {
	case 0: // name or IPv4, no port
		vrtHostChars(host, false)
		h, p, err := parseDialAddr(host, "", defPort)
		vrtCover("host without port", err == nil)
		vrtAssert("host without port: no error", err == nil)
		vrtAssert("host without port: host kept", vrtStrEq(h, host))
		vrtAssert("host without port: default port", p == defPort)
		vrtAssert("tryRemovePort keeps a host without port", vrtStrEq(tryRemovePort(host), host))
	case 1: // name or IPv4 with port
		vrtHostChars(host, false)
		h, p, err := parseDialAddr(host+":"+ps, "", defPort)
		vrtCover("host with port", err == nil)
		vrtAssert("host:port: no error", err == nil)
		vrtAssert("host:port: host kept", vrtStrEq(h, host))
		vrtAssert("host:port: port kept", p == port)
		vrtAssert("tryRemovePort strips the port", vrtStrEq(tryRemovePort(host+":"+ps), host))
	case 2: // [v6]:port
		vrtHostChars(host, true)
		h, p, err := parseDialAddr("["+host+"]:"+ps, "", defPort)
		vrtCover("bracketed v6 with port", err == nil)
		vrtAssert("[v6]:port: no error", err == nil)
		vrtAssert("[v6]:port: host kept", vrtStrEq(h, host))
		vrtAssert("[v6]:port: port kept", p == port)
	case 3: // dial_addr overrides the URL host
		vrtHostChars(host, false)
		other := vrtString(n)
		vrtHostChars(other, false)
		h, p, err := parseDialAddr(other, host+":"+ps, defPort)
		vrtCover("dial_addr override", err == nil)
		vrtAssert("dial_addr: no error", err == nil)
		vrtAssert("dial_addr: host is the dial_addr host", vrtStrEq(h, host))
		vrtAssert("dial_addr: port is the dial_addr port", p == port)
	}
}

// bare IPv6 text (two or more colons, no brackets) without port, after the
// bracket trim NewUpstream applies to the URL host.
func vrtHarness_C18_v6noport() {
	n := 2 + vrtChoice(vrtParam("max_host", 5))
	host := vrtString(n)
	vrtHostChars(host, true)
	vrtAssume(vrtCountColon(host) >= 2)
	defPort := vrtU16()
	vrtAssume(defPort != 0)
	h, p, err := parseDialAddr(tryTrimIpv6Brackets("["+host+"]"), "", defPort)
	vrtCover("bracketed v6 without port", err == nil)
	vrtAssert("[v6] without port: no error", err == nil)
	vrtAssert("[v6] without port: host is the text between the brackets", vrtStrEq(h, host))
	vrtAssert("[v6] without port: default port", p == defPort)
}

// vrtPort returns an arbitrary decimal port string (1..5 digits, no leading
// zero, value 1..65535) and its value.
func vrtPort() (string, uint16) {
	k := 1 + vrtChoice(5)
	ps := vrtString(k)
	v := uint64(0)
	for i := 0; i < k; i++ {
		vrtAssume(vrtAnd(ps[i] >= '0', ps[i] <= '9'))
		v = v*10 + uint64(ps[i]-'0')
	}
	vrtAssume(ps[0] != '0')
	vrtAssume(v <= 65535)
	return ps, uint16(v)
}
