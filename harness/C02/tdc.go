//go:build verif

package transport

import (
	"context"
	"time"
)

// One or two callers on a pipelined/UDP connection; the server answers every
// frame exactly once, as early as the instant the frame was written (before
// Write returns to the caller is covered: the reply is queued by a separate
// environment thread that may run at any scheduling point after the write),
// optionally closing right after its last reply.  No timer fires, the
// context never ends: every caller must return its own reply.
func vrtHarness_C02_tdc() {
	stream := vrtChoice(2) == 1
	callers := 1 + vrtChoice(vrtParam("max_callers", 1))
	closeAfter := vrtChoice(2) == 1
	conn := &vrtConn{stream: stream, syncWrite: callers == 1 && vrtChoice(2) == 1, eofWithData: closeAfter && stream && vrtChoice(2) == 1}
	// natively a lost reply shows as this (generous) deadline; symbolically no timer fires
	ctx, cancel := context.WithTimeout(context.Background(), 2*time.Second)
	defer cancel()
	dc := NewDnsConn(TraditionalDnsConnOpts{WithLengthHeader: stream, MaxConcurrentQuery: 8}, conn)
	// the connection has served an arbitrary number of queries before: the wire-ID counter is anywhere,
	// in particular just below the top of its range
	vrtSetCounter(&dc.nextQid, vrtU16()&3, vrtChoice(2) == 1)

	// the server: answers frame k (echo) once it has been written
	go func() {
		vrtDaemon()
		for k := 0; k < callers; k++ {
			kk := k
			vrtAwait(func() bool { return len(conn.frames) > kk }, func() {
				conn.serverSend(conn.frames[kk])
				if closeAfter && kk == callers-1 {
					conn.eof = true
				}
			})
		}
	}()

	type result struct {
		r   *[]byte
		err error
	}
	res := make([]result, callers)
	ids := make([]uint16, callers)
	done := make(chan int, callers)
	for i := 0; i < callers; i++ {
		ids[i] = vrtU16()
		i := i
		run := func() {
			ex, closed := dc.ReserveNewQuery()
			if ex == nil {
				res[i].err = ErrTDCClosed
				_ = closed
			} else {
				res[i].r, res[i].err = ex.ExchangeReserved(ctx, vrtWire(ids[i], uint16(100+i)))
			}
			done <- i
		}
		if i == callers-1 {
			run()
		} else {
			go run()
		}
	}
	for i := 0; i < callers; i++ {
		<-done
	}
	for i := 0; i < callers; i++ {
		vrtCover("caller returned", true)
		vrtAssert("a reply that arrived in time is returned (no error)", res[i].err == nil)
		if res[i].err == nil {
			vrtAssert("the reply is the caller's own, ID restored", vrtAnd(len(*res[i].r) == 14, vrtWireID(*res[i].r) == ids[i], vrtWireTag(*res[i].r) == uint16(100+i)))
		}
	}
}

// Two queries outstanding on one pipelined/UDP connection, an arbitrary number of other
// queries having come and gone between them (the wire-ID counter is anywhere, in particular
// where the second query would get the first one's wire ID).  The server answers both.
// Both replies arrive in time, so both callers return their own reply.
func vrtHarness_C02_tdcWrap() {
	stream := vrtChoice(2) == 1
	conn := &vrtConn{stream: stream}
	ctx, cancel := context.WithTimeout(context.Background(), 2*time.Second)
	defer cancel()
	dc := NewDnsConn(TraditionalDnsConnOpts{WithLengthHeader: stream, MaxConcurrentQuery: 8}, conn)
	fromTop := vrtChoice(2) == 1
	vrtSetCounter(&dc.nextQid, vrtU16(), fromTop)
	ids := [2]uint16{vrtU16(), vrtU16()}
	type result struct {
		r   *[]byte
		err error
	}
	var res [2]result
	done := make(chan int, 2)
	run := func(i int) {
		ex, _ := dc.ReserveNewQuery()
		if ex == nil {
			res[i].err = ErrTDCClosed
		} else {
			res[i].r, res[i].err = ex.ExchangeReserved(ctx, vrtWire(ids[i], uint16(100+i)))
		}
		done <- i
	}
	go run(0)
	vrtAwait(func() bool { return len(conn.frames) > 0 }, func() {})
	// 0..65535 other queries came and went
	dc.queueMu.Lock()
	vrtSetCounter(&dc.nextQid, vrtU16(), fromTop)
	dc.queueMu.Unlock()
	go run(1)
	vrtAwait(func() bool { return len(conn.frames) > 1 }, func() {
		conn.serverSend(conn.frames[0])
		conn.serverSend(conn.frames[1])
	})
	<-done
	<-done
	for i := 0; i < 2; i++ {
		vrtCover("caller returned", true)
		vrtAssert("a reply that arrived in time is returned (no error)", res[i].err == nil)
		if res[i].err == nil {
			vrtAssert("the reply is the caller's own, ID restored", vrtAnd(len(*res[i].r) == 14, vrtWireID(*res[i].r) == ids[i], vrtWireTag(*res[i].r) == uint16(100+i)))
		}
	}
}
