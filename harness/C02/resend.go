//go:build verif

package transport

import (
	"context"
	"time"
)

// UDP with a slow server: the once-per-second retransmission ticker fires 0..2 times before
// the server answers ONE of the transmissions it has received (the original or a
// retransmission).  That reply is a reply to the outstanding query: the caller returns it,
// without waiting for anything else.
func vrtHarness_C02_resend() {
	conn := &vrtConn{stream: false}
	// natively a lost reply shows as this deadline; symbolically it lies beyond the horizon
	ctx, cancel := context.WithTimeout(context.Background(), 3500*time.Millisecond)
	defer cancel()
	vrtBeyondHorizon()
	dc := NewDnsConn(TraditionalDnsConnOpts{WithLengthHeader: false, MaxConcurrentQuery: 8}, conn)
	vrtSetCounter(&dc.nextQid, vrtU16()&3, vrtChoice(2) == 1)
	resends := vrtChoice(3)        // transmissions the server waits for, beyond the first
	which := vrtChoice(resends + 1) // the transmission it answers
	go func() {
		vrtDaemon()
		vrtAwait(func() bool { return len(conn.frames) > resends }, func() {
			conn.serverSend(conn.frames[which])
			if resends > 0 {
				vrtCover("reply after a retransmission", true)
			}
			if which < resends {
				vrtCover("reply to an earlier transmission", true)
			}
		})
		vrtFreezeTimers() // the reply is there: nothing else is needed
	}()
	id := vrtU16()
	ex, _ := dc.ReserveNewQuery()
	vrtAssume(ex != nil)
	r, err := ex.ExchangeReserved(ctx, vrtWire(id, 100))
	vrtCover("caller returned", true)
	vrtAssert("a reply to any transmission of the outstanding query is returned (no error)", err == nil)
	if err == nil {
		vrtAssert("the reply is the caller's own, ID restored", vrtAnd(len(*r) == 14, vrtWireID(*r) == id, vrtWireTag(*r) == 100))
	}
	for _, f := range conn.frames {
		vrtAssert("every transmission carries the same question", vrtWireTag(f) == 100)
	}
}
