//go:build verif

package transport

import (
	"context"
	"time"
)

// Slow but alive: the dial takes d1 and the server answers d2 after it got the query, both
// well inside the transport's liveness timeouts and the caller's deadline (discrete-event
// time: timers fire on time, in deadline order).  The reply is received before the caller's
// deadline, so the exchange returns it - no internal timer (dial timeout, retransmission
// ticker, derived contexts) may cut it short.
func vrtHarness_C02_latency() {
	kind := vrtChoice(3) // 0 pipelined stream, 1 pipelined datagram, 2 non-pipelined
	shortDial := vrtChoice(2) == 1
	dialTimeout := time.Duration(0) // default: 5 s
	d1 := time.Duration(vrtBelow(1001)) * time.Millisecond
	if shortDial {
		dialTimeout = 300 * time.Millisecond
		d1 = time.Duration(vrtBelow(201)) * time.Millisecond // the dial itself succeeds in time
	}
	d2 := time.Duration(vrtBelow(4801)) * time.Millisecond
	var conn *vrtConn
	dial := func(ctx context.Context) (NetConn, error) {
		<-time.After(d1)
		vrtAtomic(func() {
			conn = &vrtConn{stream: kind != 1}
			c := conn
			go func() { // the server: answers d2 after the query arrived
				vrtDaemon()
				vrtAwait(func() bool { return len(c.frames) > 0 }, func() {})
				<-time.After(d2)
				vrtAtomic(func() { c.serverSend(c.frames[0]) })
			}()
		})
		return conn, nil
	}
	var t vrtT
	if kind == 2 {
		t = NewReuseConnTransport(ReuseConnOpts{DialContext: dial, DialTimeout: dialTimeout})
	} else {
		t = NewPipelineTransport(PipelineOpts{MaxConcurrentQueryWhileDialing: 4, DialTimeout: dialTimeout, DialContext: func(ctx context.Context) (DnsConn, error) {
			c, err := dial(ctx)
			if err != nil {
				return nil, err
			}
			return NewDnsConn(TraditionalDnsConnOpts{WithLengthHeader: kind == 0, MaxConcurrentQuery: 4}, c), nil
		}})
	}
	// natively a lost reply shows as this deadline; symbolically it lies beyond the horizon
	ctx, cancel := context.WithTimeout(context.Background(), 15*time.Second)
	defer cancel()
	vrtBeyondHorizon()
	id := vrtU16()
	r, err := t.ExchangeContext(ctx, vrtWire(id, 100))
	vrtCover("caller returned", true)
	vrtCover("reply slower than the dial timeout", vrtAnd(shortDial, d1+d2 > 300*time.Millisecond))
	vrtAssert("a reply that arrives before the caller's deadline is returned (no error)", err == nil)
	if err == nil {
		vrtAssert("the reply is the caller's own, ID restored", vrtAnd(len(*r) == 14, vrtWireID(*r) == id, vrtWireTag(*r) == 100))
	}
}
