//go:build verif

package transport

import (
	"context"
	"time"
)

// Non-pipelined transport: one caller on a connection dialled for this call.
// The server answers the query once, at any instant after it was written,
// and optionally closes right after the reply.
func vrtHarness_C02_reuse() {
	closeAfter := vrtChoice(2) == 1
	conn := &vrtConn{stream: true, syncWrite: vrtChoice(2) == 1, eofWithData: closeAfter && vrtChoice(2) == 1}
	dials := 0
	t := NewReuseConnTransport(ReuseConnOpts{DialContext: func(ctx context.Context) (NetConn, error) {
		dials++
		return conn, nil
	}})
	go func() {
		vrtDaemon()
		vrtAwait(func() bool { return len(conn.frames) > 0 }, func() {
			conn.serverSend(conn.frames[0])
			if closeAfter {
				conn.eof = true
			}
		})
	}()
	ctx, cancel := context.WithTimeout(context.Background(), 2*time.Second)
	defer cancel()
	id := vrtU16()
	r, err := t.ExchangeContext(ctx, vrtWire(id, 100))
	vrtCover("caller returned", true)
	vrtAssert("a reply that arrived in time is returned (no error)", err == nil)
	if err == nil {
		vrtAssert("the reply is the caller's own", vrtAnd(len(*r) == 14, vrtWireID(*r) == id, vrtWireTag(*r) == 100))
	}
	vrtAssert("one dial", dials == 1)
}
